package main

import (
	"errors"
	"fmt"
	"math/rand"
	"reflect"
	"runtime"
	"strings"
	"sync"
	"sync/atomic"
	"time"

	am "github.com/hashicorp/go-argmapper"
)

// runDefaultsHistory: a history on ONE target Func that was created with a
// subtyped default value D. Call A supplies the critical value X, which shares
// D's name (named) or D's Go type (type-only) but carries another subtype;
// call B, on the same Func, does not supply X; call A again. Whatever the
// library keeps between calls, B must behave like a first call without X:
// refused, target not executed, no value of call A visible (C01/C02), and
// its unsatisfied-argument error lists exactly B's own inputs (C13).
// Optionally a Redefine with X sits between A and B.
func runDefaultsHistory(c *CaseCtx, r *rand.Rand, res *CaseResult, inspectMiss func(sMiss *Scenario, cf *callFacts, in *Inst, o *Outcome)) {
	s, _ := Constructive(r, ChainCfg{MaxTgt: 2, MaxDepth: 3, MultiIn: r.Intn(2) == 0, Distract: 1, BuiltP: 0, ErrP: 0, Subtypes: true})
	drop := -1
	for _, i := range r.Perm(len(s.Inputs)) {
		t := s
		t.Inputs = append(append([]Label{}, s.Inputs[:i]...), s.Inputs[i+1:]...)
		if f := fixpoint(&t, may); !f.AllOK {
			drop = i
			break
		}
	}
	if drop < 0 {
		res.Skip = "no-critical-input"
		return
	}
	x := s.Inputs[drop]
	if x.Sub == "" {
		// give X a subtype, and with it every parameter that reads exactly X
		old := x
		x.Sub = "q"
		re := func(ls []Label) []Label {
			out := append([]Label{}, ls...)
			for i := range out {
				if out[i] == old {
					out[i].Sub = "q"
				}
			}
			return out
		}
		s.Target.In = re(s.Target.In)
		cs := make([]FuncSpec, len(s.Convs))
		for i, cv := range s.Convs {
			cv.In = re(cv.In)
			cv.InForm = pickStructForm(cv.InForm, cv.In, r)
			cs[i] = cv
		}
		s.Convs = cs
		s.Target.InForm = pickStructForm(s.Target.InForm, s.Target.In, r)
	}
	d := Label{Name: x.Name, Type: x.Type, Sub: "dflt"}
	var base []Label
	for i, l := range s.Inputs {
		if i != drop && inputKey(l) != inputKey(x) && inputKey(l) != inputKey(d) {
			base = append(base, l)
		}
	}
	for i := range s.Convs {
		s.Convs[i].Deliver, s.Convs[i].Once = DelFunc, false
	}
	sFull, sMiss := s, s
	sFull.Inputs = append(append([]Label{}, base...), d, x)
	sMiss.Inputs = append(append([]Label{}, base...), d)
	cfFull, cfMiss := factsOf(&sFull), factsOf(&sMiss)
	if !cfFull.fMay.AllOK || cfMiss.fMay.AllOK {
		res.Skip = "relabelled-input-not-critical"
		return
	}
	res.Key = "defaults-history " + s.Key() + " default " + d.String() + " critical " + x.String()
	res.NonTrivial = true
	res.obs("family.defaults-history", 1)
	w := NewWorld()
	idD := w.FreshInput(-1, 800, d)
	// per-call inputs exclude D (it is a default option of the target)
	sA, sB := s, s
	sA.Inputs = append(append([]Label{}, base...), x)
	sB.Inputs = base
	inA, err := InstantiateIn(w, sA, r, InputArg(d, idD))
	if err != nil {
		res.Skip = "instantiate"
		return
	}
	inB := &Inst{W: w, S: sB, Target: inA.Target, Convs: inA.Convs, ConvArgs: inA.ConvArgs}
	call := 0
	doA := func() {
		call++
		n0 := w.NumEvents()
		o := DoCall(w, inA.Target.Func, inA.AllArgs(call, r))
		res.Evals++
		// for the model, D is one more input
		view := *inA
		view.S = sFull
		checkCall(&view, &o, &cfFull, call, n0, res)
		res.obs("history_calls_with_the_critical_value", 1)
	}
	doB := func() {
		call++
		n0 := w.NumEvents()
		o := DoCall(w, inB.Target.Func, inB.AllArgs(call, r))
		res.Evals++
		view := *inB
		view.S = sMiss
		view.LastCall = call
		checkCall(&view, &o, &cfMiss, call, n0, res)
		if o.Class == ClsUnsat {
			res.obs("refused_with_unsatisfied_error", 1)
		}
		if inspectMiss != nil && o.Class != ClsPanic {
			inspectMiss(&sMiss, &cfMiss, &view, &o)
		}
		res.obs("history_calls_without_the_critical_value", 1)
	}
	doB()
	doA()
	if r.Intn(2) == 0 {
		// Redefine with X supplied goes through the same option handling
		call++
		args := inA.AllArgs(call, r)
		o := DoRedefine(w, inA.Target.Func, args)
		res.Evals++
		if o.Class == ClsPanic {
			res.violate("C06", "panic/"+crashKey(o.Panic), "Redefine panicked: "+o.Panic, map[string]interface{}{"scenario": sFull.String()})
		}
		if o.Func != nil && o.Class == ClsOK && r.Intn(2) == 0 {
			call++
			a2, _, _ := redefinedArgs(w, o.Func, call, r)
			DoCall(w, o.Func, a2)
			res.Evals++
		}
		res.obs("history_redefines", 1)
	}
	doB()
	doA()
	doB()
	res.Sample = map[string]interface{}{"scenario": s.String(), "default": d.String(), "critical_input": x.String(), "family": "defaults-history"}
}

var _ = am.Typed

// runC03DefaultsHistory: exact inputs for every parameter, on a target Func
// that has a subtyped default value zz:T/dflt (T = type of a type-only
// parameter). Calls alternate between "exact inputs + one more value
// zz:T/lk" and "exact inputs only"; in the latter every argument must be one
// of THAT call's inputs (or the default).
func runC03DefaultsHistory(c *CaseCtx, r *rand.Rand) (res CaseResult) {
	s, exact := genExact(r, true)
	tp := -1
	for i, p := range s.Target.In {
		if p.Name == "" {
			tp = i
		}
	}
	if tp < 0 {
		res.Skip = "no-type-only-parameter"
		return res
	}
	T := s.Target.In[tp].Type
	d := Label{Name: "zz", Type: T, Sub: "dflt"}
	leak := Label{Name: "zz", Type: T, Sub: "lk"}
	res.Key = "exact-defaults-history " + s.Key()
	res.NonTrivial = true
	res.obs("family.defaults-history", 1)
	w := NewWorld()
	idD := w.FreshInput(-1, 800, d)
	in, err := InstantiateIn(w, s, r, InputArg(d, idD))
	if err != nil {
		res.Skip = "instantiate"
		return res
	}
	sD, sDL := s, s
	sD.Inputs = append(append([]Label{}, s.Inputs...), d)
	sDL.Inputs = append(append([]Label{}, s.Inputs...), d, leak)
	cfD, cfDL := factsOf(&sD), factsOf(&sDL)
	check := func(o *Outcome, call int, with bool) {
		det := map[string]interface{}{"scenario": s.String(), "default": d.String(), "call": call, "with_extra_value": with, "class": o.Class, "err": firstLine(errStr(o.Err)), "events": eventsStr(o.Events)}
		if o.Class != ClsOK {
			res.violate("C03", "exact-not-ok", "every parameter has an exactly matching input but the call did not succeed: "+o.Class, det)
			return
		}
		if n := convEvents(o.Events); n > 0 {
			res.violate("C03", "converter-executed", fmt.Sprintf("%d converter execution(s) although every parameter has an exact input", n), det)
		}
		for _, e := range o.Events {
			if e.Func != -1 {
				continue
			}
			for i, a := range e.Args {
				org := w.Origin(a.ID)
				if org == nil {
					continue
				}
				if a.Param.Name != "" {
					if a.ID != in.InputIDs[exact[i]] {
						res.violate("C03", "named-not-exact", fmt.Sprintf("parameter %v received #%d (%s) instead of its exact input #%d", a.Param, a.ID, originStr(org), in.InputIDs[exact[i]]), det)
					}
				} else if org.Kind != OInput || org.Label.Type != a.Param.Type || (org.Call != call && org.Call != -1) {
					res.violate("C03", "typed-not-input", fmt.Sprintf("type-only parameter %v received #%d (%s, label %v), not a value of exactly its type supplied to this call", a.Param, a.ID, originStr(org), org.Label), det)
				}
				res.obs("target_arguments_checked", 1)
			}
		}
	}
	for k := 0; k < 3; k++ {
		call := 2 * k
		n0 := w.NumEvents()
		args := append(in.AllArgs(call, r), InputArg(leak, w.FreshInput(call, 801, leak)))
		o := DoCall(w, in.Target.Func, args)
		res.Evals++
		view := *in
		view.S = sDL
		checkCall(&view, &o, &cfDL, call, n0, &res)
		check(&o, call, true)
		if k == 1 && r.Intn(2) == 0 {
			// Redefine with the extra value goes through the same option handling
			DoRedefine(w, in.Target.Func, append(in.AllArgs(100+call, r), InputArg(leak, w.FreshInput(100+call, 801, leak))))
			res.Evals++
		}
		call++
		n0 = w.NumEvents()
		o2 := DoCall(w, in.Target.Func, in.AllArgs(call, r))
		res.Evals++
		view.S = sD
		checkCall(&view, &o2, &cfD, call, n0, &res)
		check(&o2, call, false)
		res.obs("history_calls_after_a_call_with_an_extra_value", 1)
	}
	res.Sample = map[string]interface{}{"scenario": s.String(), "default": d.String(), "family": "defaults-history"}
	return res
}

// touchInputSet stores values in f's OWN input value set the way an innocent
// caller does: a wrapper built with BuildFunc over f.Input() is called once
// with fresh values (BuildFunc writes the received arguments into the set it
// was given), or the set is filled directly with FromSignature. Nothing a
// later Call or Redefine of f does may depend on what that set holds.
func touchInputSet(w *World, f *am.Func, call int, r *rand.Rand) bool {
	set := f.Input()
	if set == nil || len(set.Values()) == 0 {
		return false
	}
	ok := false
	func() {
		defer func() { recover() }()
		if r.Intn(3) == 0 {
			// FromSignature directly
			sig := set.Signature()
			vals := make([]reflect.Value, len(sig))
			if len(sig) == 1 && sig[0].Kind() == reflect.Struct && sig[0].NumField() > 0 && sig[0].Field(0).Type == structMarkerT {
				sv := reflect.New(sig[0]).Elem()
				for i := 1; i < sig[0].NumField(); i++ {
					ft := sig[0].Field(i).Type
					if t := typeIndex(ft); t >= 0 && sig[0].Field(i).PkgPath == "" {
						conc := concreteFor(t, r)
						sv.Field(i).Set(mkAs(t, conc, w.FreshInput(call, 700+i, Label{Type: conc})))
					}
				}
				vals[0] = sv
			} else {
				for i, st := range sig {
					t := typeIndex(st)
					if t < 0 {
						return
					}
					conc := concreteFor(t, r)
					vals[i] = mkAs(t, conc, w.FreshInput(call, 700+i, Label{Type: conc}))
				}
			}
			if set.FromSignature(vals) == nil {
				ok = true
			}
			return
		}
		wr, err := am.BuildFunc(set, nil, func(in, out *am.ValueSet) error { return nil })
		if err != nil || wr == nil {
			return
		}
		args, _, _ := redefinedArgs(w, wr, call, r)
		o := DoCall(nil, wr, args)
		ok = o.Class == ClsOK
	}()
	return ok
}

// I0twin is a distinct interface type with exactly I0's method set: each
// implements the other.
type I0twin interface{ I0tok() int64 }

type twinIn struct {
	am.Struct
	X I0
}
type twinInRev struct {
	am.Struct
	X I0twin
}
type twinInH struct {
	am.Struct
	X I0
	H T5 `argmapper:",typeOnly"`
}

// runTwinInterfaces: a parameter of interface type A whose only source is a
// converter output statically typed as a DIFFERENT interface type B with the
// same method set (B implements A and A implements B). The parameter is
// derivable: the call succeeds with the converter's value (C05 scope (a));
// next to a hopeless parameter the unsatisfied-argument error lists the
// hopeless one only (C13). Repeated for map order.
func runTwinInterfaces(c *CaseCtx, r *rand.Rand, withHopeless bool) (res CaseResult) {
	res.NonTrivial = true
	shape := r.Intn(3)
	res.Key = fmt.Sprintf("twin-interfaces shape=%d hopeless=%v", shape, withHopeless)
	res.obs("family.twin-interfaces", 1)
	det := map[string]interface{}{"case": res.Key}
	var got int64
	ran := 0
	var target, conv interface{}
	switch {
	case withHopeless:
		target = func(in twinInH) { ran++; got = in.X.I0tok() }
		conv = func(a T3) I0twin { return T0{ID: a.ID + 1000} }
	case shape == 0:
		target = func(x I0) { ran++; got = x.I0tok() }
		conv = func(a T3) I0twin { return T0{ID: a.ID + 1000} }
	case shape == 1:
		target = func(in twinIn) { ran++; got = in.X.I0tok() }
		conv = func(a T3) (I0twin, error) { return T1{ID: a.ID + 1000}, nil }
	default:
		target = func(in twinInRev) { ran++; got = in.X.I0tok() }
		conv = func(a T3) I0 { return T0{ID: a.ID + 1000} }
	}
	f, err := am.NewFunc(target)
	if err != nil {
		res.violate("C14", "accepted-shape-rejected", "NewFunc rejected the target: "+err.Error(), det)
		return res
	}
	reps := tierReps(c.Tier, 12, 30)
	for k := 1; k <= reps; k++ {
		ran, got = 0, -1
		var rr am.Result
		func() {
			defer func() {
				if p := recover(); p != nil {
					res.violate("C06", "panic/"+crashKey(fmt.Sprint(p)), fmt.Sprintf("Call panicked: %v", p), det)
				}
			}()
			rr = f.Call(am.Typed(T3{ID: int64(k)}), am.Converter(conv))
		}()
		res.Evals++
		if !withHopeless {
			if rr.Err() != nil || ran != 1 || got != int64(k)+1000 {
				res.violate("C05", "incomplete/twin-interfaces", fmt.Sprintf("the interface parameter is derivable through a single-input converter whose output has an interface type with the same method set: Err()=%v target ran %d times, got #%d want #%d", firstLine(errStr(rr.Err())), ran, got, int64(k)+1000), det)
				break
			}
			continue
		}
		var ue *am.ErrArgumentUnsatisfied
		if rr.Err() == nil || !errors.As(rr.Err(), &ue) || ran != 0 {
			res.violate("C13", "wrong-error-type", fmt.Sprintf("hopeless parameter T5: Err()=%v target ran %d times", rr.Err(), ran), det)
			break
		}
		for _, a := range ue.Args {
			if a.Type != types[5] {
				res.violate("C13", "args-derivable", fmt.Sprintf("Args lists %s:%v although it is derivable (only T5 is hopeless)", a.Name, a.Type), det)
			}
		}
		if len(ue.Args) == 0 {
			res.violate("C13", "args-missing-hopeless", "Args does not contain the hopeless parameter T5", det)
		}
		res.obs("errors_inspected", 1)
	}
	res.Sample = det
	return res
}

// Two converters whose Go function types are different types that PRINT
// identically: each takes a function-local interface type called "Source".
func sameNamedConvA(execs *int) interface{} {
	type Source interface{ I0tok() int64 }
	return func(s Source) T4 { *execs++; return T4{ID: 7000 + s.I0tok()} }
}

func sameNamedConvB(execs *int) interface{} {
	type Source interface{ I0tok() int64 }
	return func(s Source) T4 { *execs++; return T4{ID: 8000 + s.I0tok()} }
}

// runC09SameNamedTypes: Redefine over a converter set in which two function
// types share their printed name. Redefine is planning only: no converter
// body may run, and a run-once converter must still execute on its first
// real use afterwards.
func runC09SameNamedTypes(c *CaseCtx, r *rand.Rand) (res CaseResult) {
	res.NonTrivial = true
	once := r.Intn(2) == 0
	res.Key = fmt.Sprintf("same-named-function-types once=%v", once)
	res.obs("family.same-named-function-types", 1)
	det := map[string]interface{}{"case": res.Key}
	execA, execB, ranT := 0, 0, 0
	var opts []am.Arg
	if once {
		opts = append(opts, am.FuncOnce())
	}
	fa, err1 := am.NewFunc(sameNamedConvA(&execA), opts...)
	fb, err2 := am.NewFunc(sameNamedConvB(&execB), opts...)
	target, err3 := am.NewFunc(func(x T4) { ranT++ })
	if err1 != nil || err2 != nil || err3 != nil {
		res.Skip = "newfunc"
		return res
	}
	if reflect.TypeOf(fa.Func()) == reflect.TypeOf(fb.Func()) || reflect.TypeOf(fa.Func()).String() != reflect.TypeOf(fb.Func()).String() {
		res.Skip = "types-not-as-intended"
		return res
	}
	n := tierReps(c.Tier, 40, 120)
	for k := 0; k < n; k++ {
		args := []am.Arg{am.ConverterFunc(fa), am.ConverterFunc(fb)}
		if r.Intn(2) == 0 {
			args[0], args[1] = args[1], args[0]
		}
		if r.Intn(4) != 0 {
			// the redefined function may only ask for interface values: the
			// T4 has to be planned through one of the two converters
			args = append(args, am.FilterInput(func(v am.Value) bool { return v.Type.Kind() == reflect.Interface }))
		}
		func() {
			defer func() {
				if p := recover(); p != nil {
					res.violate("C06", "panic/redefine-"+crashKey(fmt.Sprint(p)), fmt.Sprintf("Redefine panicked: %v", p), det)
				}
			}()
			target.Redefine(args...)
		}()
		res.Evals++
		if execA+execB+ranT > 0 {
			res.violate("C09", "executed-during-redefine", fmt.Sprintf("after %d Redefine calls: converter A ran %d times, converter B %d times, the target %d times", k+1, execA, execB, ranT), det)
			return res
		}
	}
	res.obs("redefines", int64(n))
	// first real use
	rr := target.Call(am.Typed(T0{ID: 5}), am.ConverterFunc(fa), am.ConverterFunc(fb))
	res.Evals++
	if rr.Err() == nil && (execA+execB != 1 || ranT != 1) {
		res.violate("C09", "not-as-before", fmt.Sprintf("first real call after planning: converter A ran %d times, B %d times, target %d times (a run-once converter must still execute on its first real use)", execA, execB, ranT), det)
	}
	res.Sample = det
	return res
}

// runC04ConcurrentOnce: several calls first-use ONE shared run-once converter
// at the same time. Its first execution succeeds, any further execution would
// fail. A failing execution performed on behalf of a call obliges that call
// to return exactly that error and not to run its target, whatever another
// call's execution produced. (With a correct run-once there is one
// execution, it succeeds, and every call succeeds.)
func runC04ConcurrentOnce(c *CaseCtx, r *rand.Rand) (res CaseResult) {
	t := distinctTypes(r, 3)
	res.Key = fmt.Sprintf("concurrent-first-use-of-a-run-once-converter %v", t)
	res.NonTrivial = true
	res.obs("family.concurrent-once", 1)
	old := runtime.GOMAXPROCS([]int{2, 4, 16}[r.Intn(3)])
	defer runtime.GOMAXPROCS(old)
	casePointHook = perturb(r.Uint64(), 1)
	defer func() { casePointHook = nil }()
	rounds := tierReps(c.Tier, 4, 10)
	for round := 0; round < rounds; round++ {
		w := NewWorld()
		w.FailOn = func(fi, exec int, specFail bool) bool { return fi == 0 && exec >= 1 }
		w.Delay = func(fi int) {
			if fi == 0 {
				time.Sleep(50 * time.Microsecond)
			}
		}
		spec := posFn([]int{t[0]}, []int{t[1]})
		spec.Once, spec.HasErr = true, true
		cv, err1 := w.Build(0, spec, r)
		tg, err2 := w.Build(-1, posFn([]int{t[1]}, nil), r)
		if err1 != nil || err2 != nil {
			res.Skip = "instantiate"
			return res
		}
		G := 3 + r.Intn(6)
		outs := make([]Outcome, G)
		start := make(chan struct{})
		var wg sync.WaitGroup
		for g := 0; g < G; g++ {
			wg.Add(1)
			args := []am.Arg{InputArg(Label{Type: t[0]}, w.FreshInput(g, 0, Label{Type: t[0]})), am.ConverterFunc(cv.Func)}
			go func(g int, args []am.Arg) {
				defer wg.Done()
				<-start
				outs[g] = DoCall(nil, tg.Func, args)
			}(g, args)
		}
		close(start)
		wg.Wait()
		res.Evals += G
		det := map[string]interface{}{"types": fmt.Sprint(t), "goroutines": G, "round": round}
		evs := w.EventsFrom(0)
		for _, e := range evs {
			if e.Func != 0 || e.Err == nil {
				continue
			}
			owners := map[int]bool{}
			for _, a := range e.Args {
				roots(w, a.ID, map[int64]bool{}, owners)
			}
			for k := range owners {
				if k < 0 || k >= G {
					continue
				}
				if outs[k].Err != e.Err {
					res.violate("C04", "error-swallowed", fmt.Sprintf("an execution of the converter on behalf of call %d returned an error, but that call returned %v", k, outs[k].Err), det)
				}
				res.obs("failing_executions_attributed_to_a_call", 1)
			}
		}
		if n := w.Execs(0); n > 1 {
			res.violate("C11", "once-reexecuted-concurrently", fmt.Sprintf("shared run-once converter executed %d times", n), det)
		}
		okCalls := 0
		for g, o := range outs {
			if o.Class == ClsPanic {
				res.violate("C06", "panic/concurrent-"+crashKey(o.Panic), "concurrent call panicked: "+o.Panic, det)
			} else if o.Err == nil {
				okCalls++
			}
			_ = g
		}
		if n := targetEvents(evs); n != okCalls {
			res.violate("C04", "target-count", fmt.Sprintf("%d calls returned no error, the target ran %d times", okCalls, n), det)
		}
		res.obs("concurrent_first_use_rounds", 1)
	}
	res.Sample = map[string]interface{}{"family": "concurrent-once"}
	return res
}

// runC08IfaceTwin: target func(x X, i I) with X implementing I. Redefine is
// given the X value; the redefined function declares exactly the input I.
// Calling it with an I value whose dynamic type is X again must run the
// original with the ORIGINAL x and the new i ("the original function's own
// results for the original arguments plus those values").
func runC08IfaceTwin(c *CaseCtx, r *rand.Rand) (res CaseResult) {
	pairs := [][2]int{{0, tI0}, {1, tI0}, {1, tI1}, {2, tI1}, {1, tI2}}
	pr := pairs[r.Intn(len(pairs))]
	X, I := pr[0], pr[1]
	res.Key = fmt.Sprintf("iface-twin x:%s i:%s", typeName(X), typeName(I))
	res.NonTrivial = true
	res.obs("family.iface-twin", 1)
	w := NewWorld()
	spec := FuncSpec{In: []Label{{Type: X}, {Type: I}}, InForm: r.Intn(3), OutForm: FormPos}
	if r.Intn(2) == 0 {
		spec.In[0], spec.In[1] = spec.In[1], spec.In[0]
	}
	if r.Intn(2) == 0 {
		spec.Out = []Label{{Type: 4}}
	}
	tg, err := w.Build(-1, spec, r)
	if err != nil {
		res.Skip = "instantiate"
		return res
	}
	det := map[string]interface{}{"target": spec.String()}
	idA := w.FreshInput(-1, 0, Label{Type: X})
	o := DoRedefine(w, tg.Func, []am.Arg{InputArg(Label{Type: X}, idA)})
	res.Evals++
	if o.Class == ClsPanic {
		res.violate("C06", "panic/redefine-"+crashKey(o.Panic), "Redefine panicked: "+o.Panic, det)
		return res
	}
	if o.Func == nil || o.Err != nil {
		res.violate("C08", "redefine-failed", "every target parameter is permitted (no filter) but Redefine failed: "+firstLine(errStr(o.Err)), det)
		return res
	}
	decl := declaredInputs(o.Func)
	if len(decl) != 1 || decl[0] != (Label{Type: I}) {
		res.violate("C08", "input-already-supplied", fmt.Sprintf("the redefined function declares %v; the caller supplied the %s, only the %s is missing", decl, typeName(X), typeName(I)), det)
		return res
	}
	// the redefined function called as the Go function it is, with a nil
	// interface value in its declared input: a value was given for every
	// declared input, so it does not fail for lack of an argument (checked
	// on a second target whose other parameter does NOT implement I, so that
	// nothing else can stand in for the interface value)
	func() {
		spec2 := FuncSpec{In: []Label{{Type: 3}, {Name: "log", Type: I}}, InForm: 1 + r.Intn(2), OutForm: FormPos}
		if r.Intn(2) == 0 {
			spec2.In[1].Name = ""
		}
		tg2, err := w.Build(-2, spec2, r)
		if err != nil {
			return
		}
		o2 := DoRedefine(w, tg2.Func, []am.Arg{InputArg(Label{Type: 3}, w.FreshInput(-1, 5, Label{Type: 3}))})
		if o2.Func == nil || o2.Err != nil {
			return
		}
		defer func() {
			if p := recover(); p != nil {
				res.violate("C06", "panic/redefined-call-"+crashKey(fmt.Sprint(p)), fmt.Sprintf("calling the redefined function directly panicked: %v", p), det)
			}
		}()
		fv := reflect.ValueOf(o2.Func.Func())
		if fv.Kind() == reflect.Func && fv.Type().NumIn() == 1 {
			outs := fv.Call([]reflect.Value{reflect.New(fv.Type().In(0)).Elem()})
			res.Evals++
			if n := len(outs); n > 0 {
				if e, _ := outs[n-1].Interface().(error); e != nil {
					res.violate("C08", "redefined-call-fails/nil-interface-input", "the redefined function, called with a nil interface value as its only declared input, failed: "+firstLine(e.Error()), map[string]interface{}{"target": spec2.String()})
				}
			}
			res.obs("direct_calls_with_a_nil_interface_input", 1)
		}
	}()
	func() {
		defer func() {
			if p := recover(); p != nil {
				res.violate("C06", "panic/redefined-call-"+crashKey(fmt.Sprint(p)), fmt.Sprintf("calling the redefined function directly panicked: %v", p), det)
			}
		}()
		fv := reflect.ValueOf(o.Func.Func())
		if fv.Kind() == reflect.Func && fv.Type().NumIn() == 1 {
			outs := fv.Call([]reflect.Value{reflect.New(fv.Type().In(0)).Elem()})
			res.Evals++
			if n := len(outs); n > 0 {
				if e, _ := outs[n-1].Interface().(error); e != nil {
					res.violate("C08", "redefined-call-fails/nil-interface-input", "the redefined function, called with a nil interface value as its declared input, failed: "+firstLine(e.Error()), det)
				}
			}
			res.obs("direct_calls_with_a_nil_interface_input", 1)
		}
	}()
	for k := 1; k <= tierReps(c.Tier, 6, 12); k++ {
		// the new value has dynamic type X in half of the calls
		conc := X
		if k%2 == 0 {
			conc = concreteFor(I, r)
		}
		idB := w.FreshInput(k, 1, Label{Type: conc})
		n0 := w.NumEvents()
		oc := DoCall(w, o.Func, []am.Arg{am.Typed(mk(conc, idB).Interface())})
		res.Evals++
		d := map[string]interface{}{"target": spec.String(), "new_value_type": typeName(conc), "class": oc.Class, "err": firstLine(errStr(oc.Err)), "events": eventsStr(oc.Events)}
		if oc.Class != ClsOK {
			res.violate("C08", "redefined-call-fails/"+oc.Class, "the redefined function was given a value for its only declared input but failed: "+firstLine(errStr(oc.Err))+oc.Panic, d)
			continue
		}
		for _, e := range w.EventsFrom(n0) {
			if e.Func != -1 {
				continue
			}
			for _, a := range e.Args {
				want := idB
				if a.Param.Type == X {
					want = idA
				}
				if a.ID != want {
					res.violate("C08", "results-of-another-call", fmt.Sprintf("the original function ran with %v = #%d; the original argument is #%d (%s), the new input #%d (%s)", a.Param, a.ID, idA, typeName(X), idB, typeName(I)), d)
				}
			}
			res.obs("redefined_calls_checked", 1)
		}
	}
	res.Sample = det
	return res
}

// embReq is a parameter struct with exported EMBEDDED fields besides the
// marker: they are parameters like any other field (named after their type).
type embReq struct {
	am.Struct
	T1
	I1 `argmapper:",typeOnly"`
	A  T0
}

// runC02Embedded: a target (or a converter on the only path) whose parameter
// struct has exported embedded fields. Without a value for one of them the
// call is refused and nothing runs; with all of them the function receives
// exactly the supplied values.
func runC02Embedded(c *CaseCtx, r *rand.Rand) (res CaseResult) {
	res.NonTrivial = true
	asConv := r.Intn(2) == 0
	drop := r.Intn(4) // 0..2: the value left out; 3: nothing left out
	res.Key = fmt.Sprintf("embedded-fields conv=%v drop=%d", asConv, drop)
	res.obs("family.embedded-fields", 1)
	if drop < 3 {
		res.obs("underivable_cases", 1)
	}
	det := map[string]interface{}{"case": res.Key}
	ran, convRan := 0, 0
	var got embReq
	var f *am.Func
	var err error
	var extra []am.Arg
	if asConv {
		conv := func(in embReq) T4 { convRan++; got = in; return T4{ID: 9} }
		f, err = am.NewFunc(func(x T4) { ran++ })
		extra = append(extra, am.Converter(conv))
	} else {
		f, err = am.NewFunc(func(in embReq) { ran++; got = in })
	}
	if err != nil {
		res.violate("C14", "accepted-shape-rejected", "NewFunc rejected a struct with embedded fields: "+err.Error(), det)
		return res
	}
	vals := []am.Arg{am.Named("T1", T1{ID: 11}), am.Typed(T2{ID: 12}), am.Named("a", T0{ID: 13})}
	var args []am.Arg
	for i, v := range vals {
		if i != drop {
			args = append(args, v)
		}
	}
	args = append(args, extra...)
	r.Shuffle(len(args), func(i, j int) { args[i], args[j] = args[j], args[i] })
	o := DoCall(nil, f, args)
	res.Evals++
	if o.Class == ClsPanic {
		res.violate("C06", "panic/"+crashKey(o.Panic), "Call panicked: "+o.Panic, det)
		return res
	}
	if drop < 3 {
		if o.Err == nil {
			res.violate("C02", "underivable-accepted", "a value for an embedded field of the parameter struct is missing yet Call returned no error", det)
		}
		if ran+convRan > 0 {
			res.violate("C02", "underivable-target-ran", fmt.Sprintf("a value for an embedded field is missing yet %d function bodies ran", ran+convRan), det)
		}
		if !asConv && o.Err != nil && o.Class != ClsUnsat {
			res.violate("C02", "underivable-wrong-error", "the error is not the unsatisfied-argument error: "+firstLine(errStr(o.Err)), det)
		}
		return res
	}
	if o.Err != nil || ran != 1 {
		res.violate("C05", "incomplete/"+o.Class, "every field has an exactly matching value but the call failed: "+firstLine(errStr(o.Err)), det)
		return res
	}
	id2 := int64(-1)
	if got.I1 != nil {
		id2 = got.I1.I1tok()
	}
	if got.T1.ID != 11 || id2 != 12 || got.A.ID != 13 {
		res.violate("C01", "binding/fabricated", fmt.Sprintf("the function received T1=#%d I1=#%d A=#%d, supplied #11 #12 #13", got.T1.ID, id2, got.A.ID), det)
	}
	return res
}

// pollute performs one unrelated operation that FAILS, on functions of its
// own, right before an operation under test. Nothing such an operation
// leaves behind (pooled builders or call states, package-level caches) may
// influence the next operation. Its values carry negative ids: should one of
// them ever reach a monitored body it has no provenance and is reported.
func pollute(r *rand.Rand) {
	defer func() { recover() }()
	type inA struct {
		am.Struct
		A T0
	}
	type outA struct {
		am.Struct
		A T1
	}
	switch r.Intn(6) {
	case 5: // a Call (and a Convert) fails while a NAMED value is being produced: its converter returns an error
		errN := errors.New("pollution: conversion of a named value failed")
		name := pick(r, []string{"a", "b", "c", "alpha"})
		tgtT := reflect.StructOf([]reflect.StructField{
			{Name: "Struct", Type: structMarkerT, Anonymous: true},
			{Name: "V", Type: types[1], Tag: reflect.StructTag(fmt.Sprintf(`argmapper:"%s"`, name))},
		})
		inT := reflect.StructOf([]reflect.StructField{
			{Name: "Struct", Type: structMarkerT, Anonymous: true},
			{Name: "V", Type: types[0], Tag: reflect.StructTag(fmt.Sprintf(`argmapper:"%s"`, name))},
		})
		tf := reflect.MakeFunc(reflect.FuncOf([]reflect.Type{tgtT}, nil, false), func([]reflect.Value) []reflect.Value { return nil })
		cf := reflect.MakeFunc(reflect.FuncOf([]reflect.Type{inT}, []reflect.Type{tgtT, errT}, false), func([]reflect.Value) []reflect.Value {
			return []reflect.Value{reflect.Zero(tgtT), reflect.ValueOf(&errN).Elem()}
		})
		f, _ := am.NewFunc(tf.Interface())
		f.Call(am.Named(name, T0{ID: -5}), am.Converter(cf.Interface()))
		am.Convert(tgtT, am.Named(name, T0{ID: -5}), am.Converter(cf.Interface()))
	case 0: // rejected for a nil option that comes after value options
		f, _ := am.NewFunc(func(in inA) {})
		f.Call(am.Named("a", T0{ID: -5}), am.Named("b", T1{ID: -5}), am.Typed(T2{ID: -5}, T3{ID: -5}), am.TypedSubtype(T4{ID: -5}, "x"), nil)
		am.NewFunc(func(in inA) {}, am.Named("c", T0{ID: -5}), nil)
		f.Redefine(am.Named("alpha", T0{ID: -5}), nil)
	case 1: // a converter fails while a multi-input converter is being reached
		errW := errors.New("pollution: converter failure")
		f, _ := am.NewFunc(func(x T4) {})
		f.Call(am.Typed(T0{ID: -5}), am.Typed(T2{ID: -5}),
			am.Converter(func(a T0, b T1) T4 { return T4{ID: -5} }),
			am.Converter(func(c T2) (T1, error) { return T1{}, errW }))
	case 2: // Redefine fails while planning a named value: the only route goes through a run-once converter that memoized a failure
		errS := errors.New("pollution: memoized failure")
		for _, name := range []string{"a", "b", "c"} {
			_ = name
		}
		once, _ := am.NewFunc(func(in inA) (outA, error) { return outA{}, errS }, am.FuncOnce())
		tgt, _ := am.NewFunc(func(in outA) {})
		tgt.Call(am.Named("a", T0{ID: -5}), am.ConverterFunc(once))
		tgt.Redefine(am.ConverterFunc(once), am.FilterInput(am.FilterType(types[0])))
	case 3: // unsatisfied: named and typed requirements nobody supplies
		f, _ := am.NewFunc(func(in struct {
			am.Struct
			A T3
			B T4 `argmapper:",typeOnly,subtype=x"`
		}) {
		})
		f.Call(am.Named("b", T0{ID: -5}), am.Typed(T1{ID: -5}))
		am.Convert(types[5], am.Named("a", T0{ID: -5}))
	default: // the target itself fails
		f, _ := am.NewFunc(func(in inA) error { return errors.New("pollution: target failure") })
		f.Call(am.Named("a", T0{ID: -5}))
	}
}

// runC11Shapes: run-once functions of unusual shapes — no results at all,
// only an error result, built with BuildFunc — used several times, directly
// and as converters: one execution, later uses observe its outputs.
func runC11Shapes(c *CaseCtx, r *rand.Rand) (res CaseResult) {
	res.NonTrivial = true
	shape := r.Intn(3)
	switch (c.Idx / 25) % 7 {
	case 1:
		shape = 3
	case 3:
		shape = 4
	case 5:
		shape = 5
	case 6:
		shape = 6
	}
	res.Key = fmt.Sprintf("run-once-shape %d", shape)
	res.obs("family.run-once-shapes", 1)
	det := map[string]interface{}{"case": res.Key}
	defer func() {
		if p := recover(); p != nil {
			res.violate("C06", "panic/"+crashKey(fmt.Sprint(p)), fmt.Sprintf("panicked: %v", p), det)
		}
	}()
	execs := 0
	switch shape {
	case 0, 1:
		var fn interface{}
		if shape == 0 {
			fn = func(a T0) { execs++ }
		} else {
			fn = func(a T0) error { execs++; return nil }
		}
		f, err := am.NewFunc(fn, am.FuncOnce())
		if err != nil {
			res.Skip = "newfunc"
			return res
		}
		var callee []*am.Func
		callee = append(callee, f)
		if rf, err := f.Redefine(); err == nil && r.Intn(2) == 0 {
			callee = append(callee, rf)
		}
		n := 3 + r.Intn(3)
		for k := 0; k < n; k++ {
			rr := pick(r, callee).Call(am.Typed(T0{ID: int64(k + 1)}))
			res.Evals++
			if rr.Err() != nil {
				res.violate("C11", "later-use-fails", "a use of the run-once function failed: "+firstLine(errStr(rr.Err())), det)
			}
		}
		if execs != 1 {
			res.violate("C11", "once-reexecuted", fmt.Sprintf("run-once function without result values executed %d times over %d uses", execs, n), det)
		}
	case 3:
		// a run-once function WITHOUT inputs in target position: called
		// directly (and through the function Redefine derives from it), and
		// used as a provider in between
		f, err := am.NewFunc(func() T1 { execs++; return T1{ID: int64(700 + execs)} }, am.FuncOnce())
		if err != nil {
			res.Skip = "newfunc"
			return res
		}
		callee := []*am.Func{f}
		if rf, err := f.Redefine(); err == nil && r.Intn(2) == 0 {
			callee = append(callee, rf)
		}
		var got []int64
		cons, _ := am.NewFunc(func(b T1) { got = append(got, b.ID) })
		n := 3 + r.Intn(3)
		for k := 0; k < n; k++ {
			res.Evals++
			if r.Intn(3) == 0 {
				if rr := cons.Call(am.ConverterFunc(f)); rr.Err() != nil {
					res.violate("C11", "later-use-fails", "a use of the run-once provider failed: "+firstLine(errStr(rr.Err())), det)
				}
				continue
			}
			rr := pick(r, callee).Call()
			if rr.Err() != nil || rr.Len() != 1 {
				res.violate("C11", "later-use-fails", "a direct call of the run-once function failed: "+firstLine(errStr(rr.Err())), det)
				continue
			}
			got = append(got, rr.Out(0).(T1).ID)
		}
		if execs != 1 {
			res.violate("C11", "once-reexecuted", fmt.Sprintf("run-once function without inputs executed %d times over %d uses", execs, n), det)
		}
		for _, id := range got {
			if id != 701 {
				res.violate("C11", "later-execution-observed", fmt.Sprintf("a use observed #%d, the first execution produced #701", id), det)
				break
			}
		}
	case 5:
		// a run-once function is the receiver of Redefine -- WITH an option,
		// and before its first execution --, then used through the derived
		// function(s) and the original: one execution, observed by all
		f, err := am.NewFunc(func(a T0) T1 { execs++; return T1{ID: int64(800 + execs)} }, am.FuncOnce())
		if err != nil {
			res.Skip = "newfunc"
			return res
		}
		callee := []*am.Func{f}
		for k := 1 + r.Intn(2); k > 0; k-- {
			rf, err := f.Redefine(am.Named("unrelated", T5{ID: 3}))
			if err != nil {
				res.violate("C08", "redefine-failed-all-permitted", "Redefine of a run-once function failed: "+err.Error(), det)
				return res
			}
			callee = append(callee, rf)
		}
		// one more derived function plans through a converter that fails for
		// its first input: that call fails INSIDE the derived function, before
		// the run-once function has ever run, and leaves nothing behind
		convFail := errors.New("converter refuses this input")
		viaConv, err := f.Redefine(am.Converter(func(x T2) (T0, error) {
			if x.ID < 0 {
				return T0{}, convFail
			}
			return T0{ID: x.ID}, nil
		}), am.FilterInput(am.FilterType(types[2])))
		if err == nil {
			if rr := viaConv.Call(am.Typed(T2{ID: -4})); rr.Err() != convFail {
				res.violate("C04", "error-not-verbatim", fmt.Sprintf("a converter failed inside a function derived by Redefine; its call returned %v", rr.Err()), det)
			}
			if execs != 0 {
				res.violate("C04", "continued-after-error", "the run-once function ran although the converter in front of it failed", det)
			}
			// later uses of that handle supply a good input (the T0 the loop
			// below passes is ignored by it: it declares T2)
			good := viaConv
			callee = append(callee, am.MustFunc(am.NewFunc(func(a T0) (T1, error) {
				rr := good.Call(am.Typed(T2{ID: a.ID}))
				if rr.Err() != nil {
					return T1{}, rr.Err()
				}
				return rr.Out(0).(T1), nil
			})))
		}
		r.Shuffle(len(callee), func(i, j int) { callee[i], callee[j] = callee[j], callee[i] })
		n := len(callee) + r.Intn(3)
		for k := 0; k < n; k++ {
			rr := callee[k%len(callee)].Call(am.Typed(T0{ID: int64(k + 1)}))
			res.Evals++
			if rr.Err() != nil || rr.Len() != 1 {
				res.violate("C11", "later-use-fails", "a use of the run-once function failed: "+firstLine(errStr(rr.Err())), det)
				continue
			}
			if id := rr.Out(0).(T1).ID; id != 801 {
				res.violate("C11", "later-execution-observed", fmt.Sprintf("a use observed #%d, the first execution produced #801", id), det)
			}
		}
		if execs != 1 {
			res.violate("C11", "once-reexecuted", fmt.Sprintf("run-once function executed %d times over %d uses through the original and %d functions derived by Redefine", execs, n, len(callee)-1), det)
		}
	case 6:
		// ONE FuncOnce() option value given to several functions (a reused
		// Arg variable, or NewFuncList): every function has its own single
		// execution and observes its own outputs
		var ex [3]int
		fns := []interface{}{
			func(a T0) T1 { ex[0]++; return T1{ID: 10} },
			func(a T0) T2 { ex[1]++; return T2{ID: 20} },
			func(a T0) (T3, error) { ex[2]++; return T3{ID: 30}, nil },
		}
		var fl []*am.Func
		if r.Intn(2) == 0 {
			fl, _ = am.NewFuncList(fns, am.FuncOnce())
		} else {
			once := am.FuncOnce()
			for _, fn := range fns {
				f, err := am.NewFunc(fn, once)
				if err == nil {
					fl = append(fl, f)
				}
			}
		}
		if len(fl) != len(fns) {
			res.Skip = "newfunc"
			return res
		}
		want := []int64{10, 20, 30}
		for k := 0; k < 6; k++ {
			i := (k + c.Idx) % 3
			rr := fl[i].Call(am.Typed(T0{ID: int64(k + 1)}))
			res.Evals++
			if rr.Err() != nil || rr.Len() != 1 {
				res.violate("C11", "later-use-fails", fmt.Sprintf("function %d sharing a FuncOnce option value: Len()=%d Err()=%v", i, rr.Len(), rr.Err()), det)
				continue
			}
			if id, _ := idOfIface(rr.Out(0)); id != want[i] {
				res.violate("C11", "later-execution-observed", fmt.Sprintf("function %d returned #%d, its own (only) execution produced #%d", i, id, want[i]), det)
			}
		}
		for i, e := range ex {
			if e != 1 {
				res.violate("C11", "once-reexecuted", fmt.Sprintf("function %d of three sharing one FuncOnce option value executed %d times over two uses", i, e), det)
			}
		}
	case 4:
		// the run-once *Func handed over where plain functions are taken:
		// Converter(f), NewFuncList([f]), NewFunc(f). Whether the library
		// refuses or accepts that, the body runs at most once overall.
		f, err := am.NewFunc(func(a T0) T1 { execs++; return T1{ID: a.ID} }, am.FuncOnce())
		if err != nil {
			res.Skip = "newfunc"
			return res
		}
		cons, _ := am.NewFunc(func(b T1) {})
		n := 3 + r.Intn(3)
		for k := 0; k < n; k++ {
			res.Evals++
			in := am.Typed(T0{ID: int64(k + 1)})
			switch r.Intn(4) {
			case 0:
				cons.Call(in, am.Converter(f))
			case 1:
				if fl, err := am.NewFuncList([]interface{}{f}); err == nil && len(fl) == 1 && fl[0] != nil {
					cons.Call(in, am.ConverterFunc(fl...))
				}
			case 2:
				if g, err := am.NewFunc(f); err == nil && g != nil {
					cons.Call(in, am.ConverterFunc(g))
				}
			default:
				cons.Call(in, am.ConverterFunc(f))
			}
		}
		if execs > 1 {
			res.violate("C11", "once-reexecuted", fmt.Sprintf("run-once function executed %d times over %d uses, some of which handed the *Func over as a plain function", execs, n), det)
		}
	default:
		in, _ := am.NewValueSet([]am.Value{{Name: "a", Type: types[0]}})
		out, _ := am.NewValueSet([]am.Value{{Name: "b", Type: types[1]}})
		built, err := am.BuildFunc(in, out, func(in, out *am.ValueSet) error {
			execs++
			out.Named("b").Value = reflect.ValueOf(T1{ID: int64(500 + execs)})
			return nil
		}, am.FuncOnce())
		if err != nil {
			res.Skip = "buildfunc"
			return res
		}
		var seen []int64
		tgt, _ := am.NewFunc(func(x struct {
			am.Struct
			B T1
		}) {
			seen = append(seen, x.B.ID)
		})
		n := 3 + r.Intn(3)
		for k := 0; k < n; k++ {
			if r.Intn(2) == 0 {
				rr := built.Call(am.Named("a", T0{ID: int64(k + 1)}))
				if rr.Err() == nil && rr.Len() == 1 {
					if v := reflect.ValueOf(rr.Out(0)); v.Kind() == reflect.Struct && v.NumField() == 2 {
						id, _ := idOf(v.Field(1))
						seen = append(seen, id)
					}
				}
			} else {
				tgt.Call(am.Named("a", T0{ID: int64(k + 1)}), am.ConverterFunc(built))
			}
			res.Evals++
		}
		if execs != 1 {
			res.violate("C11", "once-reexecuted", fmt.Sprintf("run-once function built with BuildFunc executed its callback %d times over %d uses", execs, n), det)
		}
		for _, id := range seen {
			if id != 501 {
				res.violate("C11", "later-execution-observed", fmt.Sprintf("a use observed #%d, the first execution produced #501", id), det)
				break
			}
		}
		if len(seen) != n {
			res.violate("C11", "later-use-fails", fmt.Sprintf("%d of %d uses of the built run-once function delivered a value", len(seen), n), det)
		}
	}
	res.Sample = det
	return res
}

type idErr struct{ id int64 }

func (e *idErr) Error() string { return fmt.Sprintf("failure for input #%d", e.id) }

// runC12FailingRedefined: many goroutines make FAILING calls of one shared
// redefined function at the same time; the failure of each call carries the
// id of that call's own input. Every call must return its own failure.
func runC12FailingRedefined(c *CaseCtx, r *rand.Rand) (res CaseResult) {
	res.NonTrivial = true
	withErrResult := r.Intn(2) == 0
	res.Key = fmt.Sprintf("failing-calls-of-a-shared-redefined-function errresult=%v", withErrResult)
	res.obs("family.failing-redefined", 1)
	det := map[string]interface{}{"case": res.Key}
	var target interface{} = func(x T1) T2 { return T2{ID: x.ID} }
	if withErrResult {
		target = func(x T1) (T2, error) { return T2{ID: x.ID}, nil }
	}
	f, err := am.NewFunc(target)
	if err != nil {
		res.Skip = "newfunc"
		return res
	}
	conv := func(x T0) (T1, error) {
		if x.ID%2 == 1 {
			return T1{}, &idErr{x.ID}
		}
		return T1{ID: x.ID}, nil
	}
	rf, err := f.Redefine(am.Converter(conv), am.FilterInput(am.FilterType(types[0])))
	if err != nil || rf == nil {
		res.violate("C08", "refused-although-permitted", "Redefine through a converter failed: "+errStr(err), det)
		return res
	}
	old := runtime.GOMAXPROCS(16)
	defer runtime.GOMAXPROCS(old)
	G, per := 8+r.Intn(9), tierReps(c.Tier, 150, 400)
	var wg sync.WaitGroup
	var mu sync.Mutex
	bad := 0
	first := ""
	start := make(chan struct{})
	for g := 0; g < G; g++ {
		wg.Add(1)
		go func(g int) {
			defer wg.Done()
			defer func() {
				if p := recover(); p != nil {
					mu.Lock()
					bad++
					if first == "" {
						first = fmt.Sprintf("panic: %v", p)
					}
					mu.Unlock()
				}
			}()
			<-start
			for k := 0; k < per; k++ {
				id := int64(g*100000 + k + 1)
				rr := rf.Call(am.Typed(T0{ID: id}))
				msg := ""
				if id%2 == 1 {
					var ie *idErr
					if rr.Err() == nil || !errors.As(rr.Err(), &ie) || ie.id != id {
						msg = fmt.Sprintf("the call with input #%d failed inside; it returned %v", id, rr.Err())
					}
				} else if rr.Err() != nil || rr.Len() != 1 || rr.Out(0) != (T2{ID: id}) {
					msg = fmt.Sprintf("the call with input #%d returned (%v, %v)", id, rr.Err(), rr.Len())
				}
				if msg != "" {
					mu.Lock()
					bad++
					if first == "" {
						first = msg
					}
					mu.Unlock()
				}
			}
		}(g)
	}
	close(start)
	wg.Wait()
	res.Evals += G * per
	res.obs("concurrent_operations", int64(G*per))
	if bad > 0 {
		res.violate("C12", "concurrent-outcome-differs", fmt.Sprintf("%d of %d concurrent calls of the shared redefined function returned an outcome no sequential execution of that call returns; first: %s", bad, G*per, first), det)
	}
	res.Sample = det
	return res
}

// Two function types whose parameter types are different types that print
// identically ("main.unit").
func sameNamedParamA() interface{} {
	type unit int64
	return func(u unit, t T0) T1 { return T1{} }
}

func sameNamedParamB() interface{} {
	type unit string
	return func(u unit, t T0) T1 { return T1{} }
}

// runC14SameNamedTypes: introspection of a function must not depend on which
// other functions were analysed before it, even when their parameter types
// print alike.
func runC14SameNamedTypes(c *CaseCtx, r *rand.Rand) (res CaseResult) {
	res.NonTrivial = true
	res.Key = "same-named-parameter-types"
	res.obs("family.same-named-parameter-types", 1)
	det := map[string]interface{}{"case": res.Key}
	defer func() {
		if p := recover(); p != nil {
			res.violate("C06", "panic/newfunc-"+crashKey(fmt.Sprint(p)), fmt.Sprintf("introspection panicked: %v", p), det)
		}
	}()
	fns := []interface{}{sameNamedParamA(), sameNamedParamB()}
	if r.Intn(2) == 0 {
		fns[0], fns[1] = fns[1], fns[0]
	}
	for round := 0; round < 2; round++ {
		for _, fn := range fns {
			f, err := am.NewFunc(fn)
			res.Evals++
			if err != nil {
				res.violate("C14", "accepted-shape-rejected", "NewFunc rejected a positional signature: "+err.Error(), det)
				continue
			}
			ft := reflect.TypeOf(fn)
			vals := f.Input().Values()
			if len(vals) != 2 || vals[0].Type != ft.In(0) || vals[1].Type != ft.In(1) || vals[0].Name != "" {
				got := []string{}
				for _, v := range vals {
					got = append(got, fmt.Sprintf("%v(kind %v)", v.Type, v.Type.Kind()))
				}
				res.violate("C14", "input-values-differ", fmt.Sprintf("input values = %v, the function declares %v(kind %v), %v", got, ft.In(0), ft.In(0).Kind(), ft.In(1)), det)
			}
			res.obs("values_compared", 2)
		}
	}
	res.Sample = det
	return res
}

// runC15TypedNil: an output declared with an interface type in which the
// callback stores a typed nil pointer. An ordinary function returning that
// value hands its callers a NON-nil interface holding a nil pointer; so does
// the built function, to the direct caller and to a downstream consumer, and
// SignatureValues/FromSignature restore it.
func runC15TypedNil(c *CaseCtx, r *rand.Rand) (res CaseResult) {
	res.NonTrivial = true
	res.Key = "typed-nil-in-interface-typed-output"
	res.obs("family.typed-nil-output", 1)
	det := map[string]interface{}{"case": res.Key}
	defer func() {
		if p := recover(); p != nil {
			res.violate("C06", "panic/valueset-"+crashKey(fmt.Sprint(p)), fmt.Sprintf("panicked: %v", p), det)
		}
	}()
	var nilPtr *concErr
	var asErr error = nilPtr
	out, err := am.NewValueSet([]am.Value{{Name: "warn", Type: errT}, {Name: "b", Type: types[1]}})
	if err != nil {
		res.Skip = "newvalueset"
		return res
	}
	// the stored reflect.Value has either the static type error (an
	// interface holding the nil pointer) or the pointer type itself
	stored := reflect.ValueOf(&asErr).Elem()
	if r.Intn(2) == 0 {
		stored = reflect.ValueOf(nilPtr)
	}
	built, err := am.BuildFunc(nil, out, func(in, out *am.ValueSet) error {
		out.Named("warn").Value = stored
		out.Named("b").Value = reflect.ValueOf(T1{ID: 7})
		return nil
	})
	if err != nil {
		res.Skip = "buildfunc"
		return res
	}
	// round trip through the signature
	out.Named("warn").Value = stored
	out.Named("b").Value = reflect.ValueOf(T1{ID: 7})
	sv := out.SignatureValues()
	out2, _ := am.NewValueSet([]am.Value{{Name: "warn", Type: errT}, {Name: "b", Type: types[1]}})
	if err := out2.FromSignature(sv); err == nil {
		if w := out2.Named("warn").Value; !w.IsValid() || w.IsNil() {
			res.violate("C15", "roundtrip", "a typed nil pointer stored in an error-typed value comes back as a nil interface through SignatureValues/FromSignature", det)
		}
	}
	var seen []interface{}
	cons, _ := am.NewFunc(func(in struct {
		am.Struct
		Warn error
		B    T1
	}) {
		seen = append(seen, in.Warn)
	})
	for k := 0; k < 3; k++ {
		rr := cons.Call(am.ConverterFunc(built))
		res.Evals++
		if rr.Err() != nil {
			res.violate("C15", "built-call-failed", "a consumer of the built function's outputs failed: "+firstLine(errStr(rr.Err())), det)
			break
		}
	}
	for _, w := range seen {
		if w == nil {
			res.violate("C15", "downstream-differs", "the consumer received a nil interface; an ordinary function returning a typed nil pointer as error hands on a non-nil interface", det)
			break
		}
	}
	res.Sample = det
	return res
}

// runC15Partial: what a value set and a built function do at the edges of
// their contract. (a) A FRESH built function whose callback leaves some
// outputs unset delivers, in its first call, the zero value for those and the
// callback's values for the others -- to the caller and to a consumer. (b)
// Looking up a name or type the set does not hold yields nil. (c) FromResult
// of an error result returns that error and leaves the set as it was.
func runC15Partial(c *CaseCtx, r *rand.Rand) (res CaseResult) {
	res.NonTrivial = true
	res.obs("family.partial-outputs", 1)
	det := map[string]interface{}{}
	defer func() {
		if p := recover(); p != nil {
			res.violate("C06", "panic/valueset-"+crashKey(fmt.Sprint(p)), fmt.Sprintf("panicked: %v", p), det)
		}
	}()
	// outputs: pairwise distinct types out of T3..T5 plus an interface-typed one
	outL := []Label{{Name: "a", Type: 3}, {Type: 4}}
	if r.Intn(2) == 0 {
		outL = append(outL, Label{Name: "c", Type: 5, Sub: "s"})
	}
	iface := r.Intn(2) == 0
	vals := labelsToValues(outL, nil, false)
	if iface {
		vals = append(vals, am.Value{Name: "warn", Type: errT})
	}
	setMask := r.Intn(1 << uint(len(vals)))
	res.Key = fmt.Sprintf("partial-outputs n=%d mask=%d iface=%v", len(vals), setMask, iface)
	det["case"] = res.Key
	out, err := am.NewValueSet(vals)
	if err != nil {
		res.Skip = "newvalueset"
		return res
	}
	in, _ := am.NewValueSet([]am.Value{{Name: "x", Type: types[0]}})
	cbErr := errors.New("callback failure")
	failing := false
	typedNilErr := (c.Idx/27)%3 == 1
	built, err := am.BuildFunc(in, out, func(in, out *am.ValueSet) error {
		for i, v := range out.Values() {
			if setMask&(1<<uint(i)) == 0 {
				continue
			}
			p := out.TypedSubtype(v.Type, v.Subtype)
			if v.Name != "" {
				p = out.Named(v.Name)
			}
			if i < len(outL) {
				p.Value = mk(outL[i].Type, int64(100+i))
			} else {
				p.Value = reflect.ValueOf(&concErr{})
			}
		}
		if failing {
			if typedNilErr {
				// a typed nil pointer in the error interface IS an error
				var tn *concErr
				return tn
			}
			return cbErr
		}
		return nil
	})
	if err != nil {
		res.violate("C15", "buildfunc-rejected", "BuildFunc rejected well-formed value sets: "+err.Error(), det)
		return res
	}
	// (b) misses
	if out.Named("nobody") != nil || out.Typed(types[0]) != nil || out.TypedSubtype(types[0], "") != nil || out.TypedSubtype(types[3], "zz") != nil {
		res.violate("C15", "lookup-of-absent-value", "a lookup of a name, type or type/subtype the set does not hold returned a value", det)
	}
	res.Evals++
	// (a) first call, directly (one case in two) or through a consumer
	viaConsumer := r.Intn(2) == 0
	det["via_consumer"] = viaConsumer
	check := func(i int, got reflect.Value, where string) {
		set := setMask&(1<<uint(i)) != 0
		if i >= len(outL) {
			if set == (got.IsValid() && !got.IsNil()) {
				return
			}
			res.violate("C15", "partial-outputs", fmt.Sprintf("%s: interface-typed output %d set=%v but delivered nil=%v", where, i, set, !got.IsValid() || got.IsNil()), det)
			return
		}
		id, _ := idOf(got)
		want := int64(0)
		if set {
			want = int64(100 + i)
		}
		if id != want {
			res.violate("C15", "partial-outputs", fmt.Sprintf("%s: output %d (%v) carries #%d, want #%d (set by the callback: %v)", where, i, outL[i], id, want, set), det)
		}
		res.obs("partial_outputs_checked", 1)
	}
	if !viaConsumer {
		rr := built.Call(am.Named("x", T0{ID: 1}))
		res.Evals++
		if rr.Err() != nil {
			res.violate("C15", "built-call-failed", "first call of a built function failed: "+firstLine(errStr(rr.Err())), det)
			return res
		}
		got, _ := am.NewValueSet(vals)
		if err := got.FromResult(rr); err != nil {
			res.violate("C15", "fromresult-error", err.Error(), det)
			return res
		}
		for i, v := range got.Values() {
			check(i, v.Value, "caller")
		}
	} else {
		// the consumer asks for every output
		seen := map[int]reflect.Value{}
		sf := []reflect.StructField{{Name: "Struct", Type: structMarkerT, Anonymous: true}}
		for i, v := range vals {
			tag := v.Name
			if v.Name == "" {
				tag = ",typeOnly"
			}
			if v.Subtype != "" {
				tag += ",subtype=" + v.Subtype
			}
			sf = append(sf, reflect.StructField{Name: fmt.Sprintf("F%d", i), Type: v.Type, Tag: reflect.StructTag(`argmapper:"` + tag + `"`)})
		}
		st := reflect.StructOf(sf)
		cons := reflect.MakeFunc(reflect.FuncOf([]reflect.Type{st}, nil, false), func(a []reflect.Value) []reflect.Value {
			for i := range vals {
				seen[i] = a[0].Field(i + 1)
			}
			return nil
		})
		cf, err := am.NewFunc(cons.Interface())
		if err != nil {
			res.Skip = "consumer"
			return res
		}
		rr := cf.Call(am.Named("x", T0{ID: 1}), am.ConverterFunc(built))
		res.Evals++
		if rr.Err() != nil {
			res.violate("C15", "built-call-failed", "a consumer of the built function's outputs failed: "+firstLine(errStr(rr.Err())), det)
			return res
		}
		for i := range vals {
			check(i, seen[i], "consumer")
		}
	}
	// (c) an error result: FromResult hands the error on and keeps the set
	failing = true
	rr := built.Call(am.Named("x", T0{ID: 2}))
	res.Evals++
	keep, _ := am.NewValueSet(vals)
	before := int64(900)
	if p := keep.Named("a"); p != nil {
		p.Value = mk(3, before)
	}
	if typedNilErr {
		// like an ordinary function returning that value: the call fails,
		// and a consumer of the outputs does not run
		if rr.Err() == nil {
			res.violate("C15", "callback-error-lost", "the callback returned a typed nil pointer as its error (a non-nil error value); the call reports success", det)
		}
		ran := false
		cons, _ := am.NewFunc(func(a T3) { ran = true })
		if r2 := cons.Call(am.Named("x", T0{ID: 3}), am.ConverterFunc(built)); r2.Err() == nil || ran {
			res.violate("C15", "callback-error-lost", "a consumer of the built function's outputs ran although the callback returned a (typed nil) error value", det)
		}
		res.obs("typed_nil_callback_errors", 1)
	} else if err := keep.FromResult(rr); err != cbErr {
		res.violate("C15", "fromresult-error", fmt.Sprintf("FromResult of a result carrying the callback's error returned %v", err), det)
	}
	if p := keep.Named("a"); p != nil {
		if id, _ := idOf(p.Value); id != before {
			res.violate("C15", "fromresult-error", fmt.Sprintf("FromResult of an error result changed a value of the set (#%d -> #%d)", before, id), det)
		}
	}
	res.obs("error_results_loaded", 1)
	res.Sample = det
	return res
}

type c15SetsIn struct {
	am.Struct
	A T0
	B T1
}

type c15SetsOut struct {
	am.Struct
	N T3
}

// runC15FromFuncSets: a function built over the Input() and Output() sets of
// an ORDINARY function (whose parameter or result may be a struct, a pointer
// to a struct, or positional) hands its callback the injected values and
// delivers the callback's output to the caller and to a consumer.
func runC15FromFuncSets(c *CaseCtx, r *rand.Rand) (res CaseResult) {
	res.NonTrivial = true
	shape := r.Intn(4)
	res.Key = fmt.Sprintf("built-over-the-sets-of-an-ordinary-function shape=%d", shape)
	res.obs("family.built-over-function-sets", 1)
	det := map[string]interface{}{"case": res.Key}
	defer func() {
		if p := recover(); p != nil {
			res.violate("C06", "panic/valueset-"+crashKey(fmt.Sprint(p)), fmt.Sprintf("panicked: %v", p), det)
		}
	}()
	var fn interface{}
	var origA, origB int64
	switch shape {
	case 0:
		fn = func(in *c15SetsIn) T3 { origA, origB = in.A.ID, in.B.ID; return T3{} }
	case 1:
		fn = func(in c15SetsIn) *c15SetsOut { origA, origB = in.A.ID, in.B.ID; return nil }
	case 2:
		fn = func(in *c15SetsIn) *c15SetsOut { origA, origB = in.A.ID, in.B.ID; return nil }
	default:
		fn = func(in c15SetsIn) c15SetsOut { origA, origB = in.A.ID, in.B.ID; return c15SetsOut{} }
	}
	orig, err := am.NewFunc(fn)
	if err != nil {
		res.Skip = "newfunc"
		return res
	}
	namedOut := shape != 0
	var sawA, sawB int64
	built, err := am.BuildFunc(orig.Input(), orig.Output(), func(in, out *am.ValueSet) error {
		sawA, _ = idOf(in.Named("a").Value)
		sawB, _ = idOf(in.Named("b").Value)
		v := reflect.ValueOf(T3{ID: sawA*100 + sawB})
		if namedOut {
			out.Named("n").Value = v
		} else {
			out.Typed(types[3]).Value = v
		}
		return nil
	})
	if err != nil {
		res.violate("C15", "buildfunc-rejected", "BuildFunc rejected the value sets of an ordinary function: "+err.Error(), det)
		return res
	}
	var got int64
	var cons *am.Func
	if namedOut {
		cons, _ = am.NewFunc(func(in struct {
			am.Struct
			N T3
		}) {
			got = in.N.ID
		})
	} else {
		cons, _ = am.NewFunc(func(n T3) { got = n.ID })
	}
	for k := int64(1); k <= 3; k++ {
		a, b := 2*k, 2*k+1
		sawA, sawB, got = -1, -1, -1
		args := []am.Arg{am.Named("a", T0{ID: a}), am.Named("b", T1{ID: b})}
		var rr am.Result
		direct := r.Intn(2) == 0
		if direct {
			rr = built.Call(args...)
		} else {
			rr = cons.Call(append(args, am.ConverterFunc(built))...)
		}
		res.Evals++
		det["direct"] = direct
		if rr.Err() != nil {
			res.violate("C15", "built-call-failed", "a function built over the value sets of an ordinary function failed: "+firstLine(errStr(rr.Err())), det)
			break
		}
		if sawA != a || sawB != b {
			res.violate("C15", "callback-args", fmt.Sprintf("the callback saw a=#%d b=#%d, injected were #%d and #%d", sawA, sawB, a, b), det)
		}
		if !direct && got != a*100+b {
			res.violate("C15", "downstream-differs", fmt.Sprintf("the consumer received #%d, the callback produced #%d", got, a*100+b), det)
		}
		res.obs("built_over_function_sets_calls", 1)
	}
	// the ordinary function whose sets the built one works on is then called
	// itself, with type-only values: its body sees THESE values, not what the
	// built function's calls left in the shared sets
	origA, origB = -1, -1
	ro := orig.Call(am.Typed(T0{ID: 91}), am.Typed(T1{ID: 92}))
	res.Evals++
	if ro.Err() != nil {
		res.violate("C15", "built-call-failed", "the ordinary function failed after a built function had worked on its value sets: "+firstLine(errStr(ro.Err())), det)
	} else if origA != 91 || origB != 92 {
		res.violate("C15", "sets-leak-into-the-function", fmt.Sprintf("the ordinary function was executed with a=#%d b=#%d, supplied were #91 and #92 (the built function's last call had #6 and #7)", origA, origB), det)
	}
	res.Sample = det
	return res
}

// runC15ArgSnapshot: Value.Arg() taken from a set's live value carries the
// value the set held at that moment; changing the set afterwards (direct
// assignment, FromSignature, a later call of a built function over the set)
// does not change what the option injects.
func runC15ArgSnapshot(c *CaseCtx, r *rand.Rand) (res CaseResult) {
	res.NonTrivial = true
	named := r.Intn(2) == 0
	how := r.Intn(3)
	res.Key = fmt.Sprintf("arg-snapshot named=%v change=%d", named, how)
	res.obs("family.arg-snapshot", 1)
	det := map[string]interface{}{"case": res.Key}
	defer func() {
		if p := recover(); p != nil {
			res.violate("C06", "panic/valueset-"+crashKey(fmt.Sprint(p)), fmt.Sprintf("panicked: %v", p), det)
		}
	}()
	v := am.Value{Type: types[0]}
	if named {
		v.Name = "a"
	}
	vs, err := am.NewValueSet([]am.Value{v})
	if err != nil {
		res.Skip = "newvalueset"
		return res
	}
	get := func() *am.Value {
		if named {
			return vs.Named("a")
		}
		return vs.Typed(types[0])
	}
	get().Value = reflect.ValueOf(T0{ID: 1})
	arg := get().Arg()
	switch how {
	case 0:
		get().Value = reflect.ValueOf(T0{ID: 2})
	case 1:
		sv := reflect.New(vs.Signature()[0]).Elem()
		sv.Field(1).Set(reflect.ValueOf(T0{ID: 2}))
		vs.FromSignature([]reflect.Value{sv})
	default:
		if built, err := am.BuildFunc(vs, nil, func(in, out *am.ValueSet) error { return nil }); err == nil {
			built.Call(am.NamedSubtype(v.Name, T0{ID: 2}, ""))
		}
	}
	var got int64
	var tgt *am.Func
	if named {
		tgt, _ = am.NewFunc(func(in struct {
			am.Struct
			A T0
		}) {
			got = in.A.ID
		})
	} else {
		tgt, _ = am.NewFunc(func(x T0) { got = x.ID })
	}
	rr := tgt.Call(arg)
	res.Evals++
	if rr.Err() != nil || got != 1 {
		res.violate("C15", "arg-not-a-snapshot", fmt.Sprintf("the option made by Arg() when the set held #1 injected #%d (err %v) after the set was changed to #2", got, rr.Err()), det)
	}
	res.Sample = det
	return res
}

// runC19NilVertex: histories over the vertices {nil interface, 1, 2}. The
// nil interface value is accepted as a vertex by every mutator; the ordinary
// C19 oracle cannot judge such graphs (it reads a nil entry in OutEdges as a
// dangling edge), so this family compares the structural snapshot (hash-keyed
// adjacency maps and vertex table) with a plain model after every operation.
func runC19NilVertex(c *CaseCtx, r *rand.Rand) (res CaseResult) {
	res.NonTrivial = true
	res.obs("family.nil-vertex", 1)
	verts := []interface{}{nil, 1, 2}
	present := map[int]bool{}
	edges := map[[2]int]int{}
	var g am.VerifGraph
	var trace []string
	det := func() interface{} { return map[string]interface{}{"ops": strings.Join(trace, " ; ")} }
	defer func() {
		if p := recover(); p != nil {
			res.violate("C19", "panic/"+crashKey(fmt.Sprint(p)), fmt.Sprintf("graph operation panicked: %v", p), det())
		}
	}()
	nops := 4 + r.Intn(14)
	for k := 0; k < nops; k++ {
		a, b := r.Intn(3), r.Intn(3)
		switch op := r.Intn(7); {
		case op <= 1:
			g.Add(verts[a])
			present[a] = true
			trace = append(trace, fmt.Sprintf("Add(%v)", verts[a]))
		case op == 2:
			g.AddOverwrite(verts[a])
			present[a] = true
			trace = append(trace, fmt.Sprintf("AddOverwrite(%v)", verts[a]))
		case op <= 4:
			w := r.Intn(5)
			g.AddEdgeWeighted(verts[a], verts[b], w)
			if present[a] && present[b] {
				edges[[2]int{a, b}] = w
			}
			trace = append(trace, fmt.Sprintf("AddEdgeWeighted(%v,%v,%d)", verts[a], verts[b], w))
		case op == 5:
			g.RemoveEdge(verts[a], verts[b])
			delete(edges, [2]int{a, b})
			trace = append(trace, fmt.Sprintf("RemoveEdge(%v,%v)", verts[a], verts[b]))
		default:
			g.Remove(verts[a])
			delete(present, a)
			for e := range edges {
				if e[0] == a || e[1] == a {
					delete(edges, e)
				}
			}
			trace = append(trace, fmt.Sprintf("Remove(%v)", verts[a]))
		}
		res.Evals++
		s := takeSnap(&g)
		for _, p := range s.mirrorProblems() {
			res.violate("C19", "mirror", p, det())
		}
		for i, v := range verts {
			if _, ok := s.hash[v]; ok != present[i] {
				res.violate("C19", "vertex-set", fmt.Sprintf("vertex %v in the vertex table = %v, model %v", v, ok, present[i]), det())
			}
		}
		n := 0
		for x, m := range s.out {
			for y, w := range m {
				n++
				ix, iy := -1, -1
				for i, v := range verts {
					if v == x {
						ix = i
					}
					if v == y {
						iy = i
					}
				}
				if mw, ok := edges[[2]int{ix, iy}]; !ok || mw != w {
					res.violate("C19", "successors", fmt.Sprintf("edge %v->%v (%d) is not in the model (model weight %d, present %v)", x, y, w, mw, ok), det())
				}
			}
		}
		if n != len(edges) {
			res.violate("C19", "successors", fmt.Sprintf("the graph has %d edges, the model %d", n, len(edges)), det())
		}
		if len(res.Violations) > 0 {
			break
		}
	}
	res.Key = strings.Join(trace, ";")
	res.Sample = map[string]interface{}{"ops": strings.Join(trace, " ; ")}
	return res
}

// runC15SamePrinting: a value list whose types are different Go types that
// print alike (two function-local "unit" types, plus same-named values of
// them): the values are distinct, so the set is built, reports them in order
// and finds each by its type.
func runC15SamePrinting(c *CaseCtx, r *rand.Rand) (res CaseResult) {
	res.NonTrivial = true
	res.Key = "value-set-over-types-that-print-alike"
	res.obs("family.types-that-print-alike", 1)
	det := map[string]interface{}{"case": res.Key}
	defer func() {
		if p := recover(); p != nil {
			res.violate("C06", "panic/valueset-"+crashKey(fmt.Sprint(p)), fmt.Sprintf("panicked: %v", p), det)
		}
	}()
	ta := reflect.TypeOf(sameNamedParamA()).In(0)
	tb := reflect.TypeOf(sameNamedParamB()).In(0)
	lists := [][]am.Value{
		{{Type: ta}, {Type: tb}},
		{{Type: tb}, {Name: "k", Type: types[0]}, {Type: ta}},
		{{Type: ta, Subtype: "s"}, {Type: tb, Subtype: "s"}},
	}
	for _, vals := range lists {
		vs, err := am.NewValueSet(vals)
		res.Evals++
		if err != nil || vs == nil {
			res.violate("C15", "valueset-rejected", fmt.Sprintf("NewValueSet rejected a list of distinct values (types %v and %v are different types): %v", ta, tb, err), det)
			continue
		}
		got := vs.Values()
		if len(got) != len(vals) {
			res.violate("C15", "values-differ", fmt.Sprintf("Values() has %d entries, the list %d", len(got), len(vals)), det)
			continue
		}
		for i, v := range vals {
			if got[i].Type != v.Type || got[i].Name != v.Name || got[i].Subtype != v.Subtype {
				res.violate("C15", "values-differ", fmt.Sprintf("Values()[%d] = (%q, %v kind %v, %q), want (%q, %v kind %v, %q)", i, got[i].Name, got[i].Type, got[i].Type.Kind(), got[i].Subtype, v.Name, v.Type, v.Type.Kind(), v.Subtype), det)
			}
			if v.Name == "" {
				if p := vs.TypedSubtype(v.Type, v.Subtype); p == nil || p.Type != v.Type {
					res.violate("C15", "typedsubtype-lookup", fmt.Sprintf("TypedSubtype(%v kind %v, %q) does not find the value of that type", v.Type, v.Type.Kind(), v.Subtype), det)
				}
			}
		}
	}
	res.Sample = det
	return res
}

// runC12ConvertTypes: many goroutines call Convert at the same time, each to
// one of several target types, all supplying typed values of every type with
// their own ids. Each Convert returns the supplied value of ITS target type.
func runC12ConvertTypes(c *CaseCtx, r *rand.Rand) (res CaseResult) {
	res.NonTrivial = true
	res.Key = "concurrent-converts-to-different-types"
	res.obs("family.concurrent-converts", 1)
	det := map[string]interface{}{"case": res.Key}
	old := runtime.GOMAXPROCS(16)
	defer runtime.GOMAXPROCS(old)
	G, per := 8+r.Intn(9), tierReps(c.Tier, 200, 500)
	withConv := r.Intn(2) == 0
	var wg sync.WaitGroup
	var mu sync.Mutex
	bad, first := 0, ""
	start := make(chan struct{})
	for g := 0; g < G; g++ {
		wg.Add(1)
		go func(g int) {
			defer wg.Done()
			defer func() {
				if p := recover(); p != nil {
					mu.Lock()
					bad++
					if first == "" {
						first = fmt.Sprintf("panic: %v", p)
					}
					mu.Unlock()
				}
			}()
			<-start
			for k := 0; k < per; k++ {
				id := int64(g*100000 + k + 1)
				t := (g + k) % 4
				args := []am.Arg{am.Typed(T0{ID: id}, T1{ID: id}, T2{ID: id})}
				if withConv {
					args = append(args, am.Converter(func(x T2) T3 { return T3{ID: x.ID} }))
				} else {
					args = append(args, am.Typed(T3{ID: id}))
				}
				v, err := am.Convert(types[t], args...)
				got, conc := idOfIface(v)
				if err != nil || conc != t || got != id {
					mu.Lock()
					bad++
					if first == "" {
						first = fmt.Sprintf("Convert(%s) with the values #%d returned (%T %v, %v)", typeName(t), id, v, v, err)
					}
					mu.Unlock()
				}
			}
		}(g)
	}
	close(start)
	wg.Wait()
	res.Evals += G * per
	res.obs("concurrent_operations", int64(G*per))
	if bad > 0 {
		res.violate("C12", "concurrent-outcome-differs", fmt.Sprintf("%d of %d concurrent Converts returned an outcome no sequential execution of that call returns; first: %s", bad, G*per, first), det)
	}
	res.Sample = det
	return res
}

// runC01SamePrinting: a parameter of one type and a supplied value of a
// DIFFERENT type that prints alike (two function-local "unit" types: an
// int64 and a string). The library identifies types by their printed name in
// places, so such a call may fail in any way (C06 does not cover types that
// are not distinctly named) — but it must never EXECUTE a function with a
// value nobody supplied (a converted or zero value of the parameter's type).
func runC01SamePrinting(c *CaseCtx, r *rand.Rand) (res CaseResult) {
	res.NonTrivial = true
	named := r.Intn(2) == 0
	res.Key = fmt.Sprintf("types-that-print-alike named=%v", named)
	res.obs("family.types-that-print-alike", 1)
	det := map[string]interface{}{"case": res.Key}
	ta := reflect.TypeOf(sameNamedParamA()).In(0) // kind int64
	tb := reflect.TypeOf(sameNamedParamB()).In(0) // kind string
	want, have := ta, tb
	if r.Intn(2) == 0 {
		want, have = tb, ta
	}
	ran := 0
	var inT reflect.Type = want
	if named {
		inT = reflect.StructOf([]reflect.StructField{
			{Name: "Struct", Type: structMarkerT, Anonymous: true},
			{Name: "A", Type: want},
		})
	}
	fn := reflect.MakeFunc(reflect.FuncOf([]reflect.Type{inT}, nil, false), func([]reflect.Value) []reflect.Value { ran++; return nil })
	f, err := am.NewFunc(fn.Interface())
	if err != nil {
		res.Skip = "newfunc"
		return res
	}
	v := reflect.New(have).Elem()
	if have.Kind() == reflect.String {
		v.SetString("7")
	} else {
		v.SetInt(7)
	}
	for k := 0; k < 20; k++ {
		var arg am.Arg
		if named {
			arg = am.Named("a", v.Interface())
		} else {
			arg = am.Typed(v.Interface())
		}
		func() {
			defer func() { recover() }()
			f.Call(arg)
		}()
		res.Evals++
		if ran > 0 {
			res.violate("C01", "binding/type", fmt.Sprintf("the function with a parameter of type %v (kind %v) was executed although the only supplied value has type %v (kind %v)", want, want.Kind(), have, have.Kind()), det)
			break
		}
	}
	res.Sample = det
	return res
}

// runC08SameKey: Redefine is given a value whose NAME equals a parameter's
// name but whose type the function cannot use. The parameter stays an input
// of the redefined function, and the value supplied for it at call time is
// the one the original function receives.
func runC08SameKey(c *CaseCtx, r *rand.Rand) (res CaseResult) {
	res.NonTrivial = true
	res.Key = "redefine-option-shares-a-key-with-an-input"
	res.obs("family.same-key", 1)
	w := NewWorld()
	spec := FuncSpec{In: []Label{{Name: "n", Type: 0}}, InForm: 1 + r.Intn(2), OutForm: FormPos}
	if r.Intn(2) == 0 {
		spec.In = append(spec.In, Label{Type: 1})
	}
	tg, err := w.Build(-1, spec, r)
	if err != nil {
		res.Skip = "instantiate"
		return res
	}
	det := map[string]interface{}{"target": spec.String()}
	wrong := Label{Name: "n", Type: 5}
	ropts := []am.Arg{am.Named(mixCase("n", r), mk(5, w.FreshInput(-1, 0, wrong)).Interface())}
	o := DoRedefine(w, tg.Func, ropts)
	res.Evals++
	if o.Func == nil || o.Err != nil || o.Class == ClsPanic {
		res.violate("C08", "refused-although-permitted", "Redefine failed although every parameter is permitted: "+firstLine(errStr(o.Err))+o.Panic, det)
		return res
	}
	for k := 1; k <= 4; k++ {
		args, _, _ := redefinedArgs(w, o.Func, k, r)
		n0 := w.NumEvents()
		oc := DoCall(w, o.Func, args)
		res.Evals++
		d := map[string]interface{}{"target": spec.String(), "class": oc.Class, "err": firstLine(errStr(oc.Err)), "events": eventsStr(oc.Events)}
		if oc.Class != ClsOK {
			res.violate("C08", "redefined-call-fails/"+oc.Class, "the redefined function was given a value for each declared input but failed: "+firstLine(errStr(oc.Err))+oc.Panic, d)
			continue
		}
		for _, msg := range checkBinding(w, w.EventsFrom(n0), BindingOpts{AllowedCalls: map[int]bool{k: true}, MinSeq: n0, Via: declaredInputs(o.Func)}) {
			res.violate("C01", "binding/"+bindingKind(msg), "redefined function: "+msg, d)
		}
	}
	res.Sample = det
	return res
}

type c08ErrOut struct {
	am.Struct
	Warn error
	N    T1
}

// runC08ErrorOutput: an ORDINARY output of type error (an error result that is
// not in final position, or an error-typed field of a struct result) is an
// output like any other for the output filter: Redefine fails when the filter
// rejects it and succeeds, with a callable result, when the filter admits it.
func runC08ErrorOutput(c *CaseCtx, r *rand.Rand) (res CaseResult) {
	res.NonTrivial = true
	shape := r.Intn(3)
	asDefault := r.Intn(3) == 0
	if (c.Idx/37)%4 == 1 {
		// a final result of a CONCRETE type that implements error is an
		// ordinary output too (C17): the derived function returns it and
		// its own final error
		res.Key = "final-result-of-a-concrete-error-type"
		res.obs("family.error-typed-ordinary-output", 1)
		f, err := am.NewFunc(func(a T0) (T1, *concErr) { return T1{ID: a.ID}, nil })
		if err != nil {
			res.Skip = "newfunc"
			return res
		}
		var rr am.Result
		func() {
			defer func() {
				if p := recover(); p != nil {
					res.violate("C06", "panic/redefine-"+crashKey(fmt.Sprint(p)), fmt.Sprintf("panicked: %v", p), map[string]interface{}{"case": res.Key})
				}
			}()
			rf, err := f.Redefine()
			if err != nil {
				res.violate("C08", "redefine-failed-all-permitted", "Redefine without filters failed: "+err.Error(), map[string]interface{}{"case": res.Key})
				return
			}
			rr = rf.Call(am.Typed(T0{ID: 8}))
			res.Evals++
			if rr.Err() != nil || rr.Len() != 2 {
				res.violate("C08", "redefined-call-fails/"+classify(nil, rr.Err()), fmt.Sprintf("redefined func(T0) (T1, *concErr): Len()=%d Err()=%v", rr.Len(), rr.Err()), map[string]interface{}{"case": res.Key})
			} else if v, ok := rr.Out(0).(T1); !ok || v.ID != 8 {
				res.violate("C08", "results-differ", fmt.Sprintf("redefined function returned %#v, the original returns T1{8}", rr.Out(0)), map[string]interface{}{"case": res.Key})
			}
		}()
		return res
	}
	res.Key = fmt.Sprintf("error-typed-ordinary-output shape=%d filter-as-default=%v", shape, asDefault)
	res.obs("family.error-typed-ordinary-output", 1)
	det := map[string]interface{}{"case": res.Key}
	defer func() {
		if p := recover(); p != nil {
			res.violate("C06", "panic/redefine-"+crashKey(fmt.Sprint(p)), fmt.Sprintf("panicked: %v", p), det)
		}
	}()
	warn := errors.New("a warning value")
	var fn interface{}
	switch shape {
	case 0:
		fn = func(a T0) (error, T1) { return warn, T1{ID: a.ID} }
	case 1:
		fn = func(a T0) (error, T1, error) { return warn, T1{ID: a.ID}, nil }
	default:
		fn = func(a T0) c08ErrOut { return c08ErrOut{Warn: warn, N: T1{ID: a.ID}} }
	}
	reject := am.FilterOutput(am.FilterType(types[1]))
	admit := am.FilterOutput(am.FilterOr(am.FilterType(types[1]), am.FilterType(errT)))
	mk := func(flt am.Arg) (*am.Func, error) {
		if asDefault {
			f, err := am.NewFunc(fn, flt)
			if err != nil {
				return nil, err
			}
			return f.Redefine()
		}
		f, err := am.NewFunc(fn)
		if err != nil {
			return nil, err
		}
		return f.Redefine(flt)
	}
	res.Evals += 2
	if rf, err := mk(reject); err == nil && rf != nil {
		res.violate("C08", "output-filter-ignored", "the output filter rejects the error-typed ordinary output but Redefine succeeded", det)
	}
	rf, err := mk(admit)
	if err != nil || rf == nil {
		res.violate("C08", "redefine-failed-all-permitted", fmt.Sprintf("every output is admitted by the output filter and every parameter is permitted, but Redefine failed: %v", err), det)
		return res
	}
	rr := rf.Call(am.Typed(T0{ID: 6}))
	res.Evals++
	if rr.Err() != nil {
		res.violate("C08", "redefined-call-fails/"+classify(nil, rr.Err()), "calling the redefined function with a value for its declared input failed: "+firstLine(errStr(rr.Err())), det)
	}
	res.Sample = det
	return res
}

// runC12FreshFuncFirstUse: the FIRST uses of a freshly made function are
// concurrent (most sharing workloads warm their functions up): several
// goroutines, released together, Redefine it or call it without its argument.
// Every derived function carries the name, and every refused call the error
// text, that the same operation yields on a twin function used sequentially.
func runC12FreshFuncFirstUse(c *CaseCtx, r *rand.Rand) (res CaseResult) {
	res.NonTrivial = true
	res.Key = "concurrent-first-uses-of-a-fresh-function"
	res.obs("family.concurrent-first-uses", 1)
	det := map[string]interface{}{"case": res.Key}
	old := runtime.GOMAXPROCS(16)
	defer runtime.GOMAXPROCS(old)
	raw := func(a T0) T1 { return T1{ID: a.ID} }
	twin, err := am.NewFunc(raw)
	if err != nil {
		res.Skip = "newfunc"
		return res
	}
	wantName := twin.Name()
	twinRes := twin.Call()
	wantErr := errStr(twinRes.Err())
	rounds, G := tierReps(c.Tier, 120, 300), 8
	bad, first := 0, ""
	var mu sync.Mutex
	note := func(msg string) {
		mu.Lock()
		bad++
		if first == "" {
			first = msg
		}
		mu.Unlock()
	}
	for k := 0; k < rounds; k++ {
		f, err := am.NewFunc(raw)
		if err != nil {
			break
		}
		start := make(chan struct{})
		var wg sync.WaitGroup
		for g := 0; g < G; g++ {
			wg.Add(1)
			go func(g int) {
				defer wg.Done()
				defer func() {
					if p := recover(); p != nil {
						note(fmt.Sprintf("panic: %v", p))
					}
				}()
				<-start
				if g%2 == 0 {
					rf, err := f.Redefine()
					if err != nil || rf == nil {
						note(fmt.Sprintf("Redefine failed: %v", err))
					} else if n := rf.Name(); n != wantName {
						note(fmt.Sprintf("the function derived by a concurrent Redefine is named %q, sequentially %q", n, wantName))
					}
				} else {
					rr := f.Call()
					if e := errStr(rr.Err()); e != wantErr {
						note(fmt.Sprintf("the error of a concurrent refused call reads %q, sequentially %q", firstLine(e), firstLine(wantErr)))
					}
				}
			}(g)
		}
		close(start)
		wg.Wait()
		res.Evals += G
	}
	res.obs("concurrent_operations", int64(rounds*G))
	if bad > 0 {
		res.violate("C12", "concurrent-outcome-differs", fmt.Sprintf("%d of %d concurrent first uses of a fresh function returned an outcome no sequential execution returns; first: %s", bad, rounds*G, first), det)
	}
	res.Sample = det
	return res
}

// runC12ManyInFlight: MANY calls are in flight at the same instant. 64
// goroutines call one shared target through four shared converters, two of
// them with two inputs; the innermost converter waits until every call has
// reached it (every call then sits several resolver frames deep), then all
// proceed. Each call returns the value derived from its own input.
func runC12ManyInFlight(c *CaseCtx, r *rand.Rand) (res CaseResult) {
	res.NonTrivial = true
	res.Key = "many-calls-in-flight"
	res.obs("family.many-calls-in-flight", 1)
	det := map[string]interface{}{"case": res.Key}
	old := runtime.GOMAXPROCS(16)
	defer runtime.GOMAXPROCS(old)
	const G = 64
	for round := 0; round < 2; round++ {
		var arrived int64
		var seen sync.Map
		all := make(chan struct{})
		// deep sits three resolver frames below the call: the target needs
		// T2 from outer(T4, T1), whose T4 comes from mid(T1, T5), whose T5
		// comes from deep(T0) -- which waits for everybody
		deep, _ := am.NewFunc(func(a T0) T5 {
			if _, dup := seen.LoadOrStore(a.ID, true); !dup {
				if atomic.AddInt64(&arrived, 1) == G {
					close(all)
				}
			}
			select {
			case <-all:
			case <-time.After(5 * time.Second):
				// only releases the goroutines; the verdict is on the results
			}
			return T5{ID: a.ID}
		})
		inner, _ := am.NewFunc(func(a T0) T1 { return T1{ID: a.ID} })
		mid, _ := am.NewFunc(func(b T1, f T5) T4 { return T4{ID: f.ID} })
		outer, _ := am.NewFunc(func(e T4, b T1) T2 { return T2{ID: e.ID} })
		target, _ := am.NewFunc(func(x T2) T3 { return T3{ID: x.ID} })
		shared := []am.Arg{am.ConverterFunc(inner, outer), am.ConverterFunc(mid, deep)}
		var wg sync.WaitGroup
		var mu sync.Mutex
		bad, first := 0, ""
		start := make(chan struct{})
		for g := 0; g < G; g++ {
			wg.Add(1)
			go func(g int) {
				defer wg.Done()
				defer func() {
					if p := recover(); p != nil {
						mu.Lock()
						bad++
						if first == "" {
							first = fmt.Sprintf("panic: %v", p)
						}
						mu.Unlock()
					}
				}()
				<-start
				id := int64(round*1000 + g + 1)
				var rr am.Result
				if g%4 == 3 {
					v, err := am.Convert(types[2], append([]am.Arg{am.Typed(T0{ID: id})}, shared...)...)
					if got, _ := idOfIface(v); err != nil || got != id {
						mu.Lock()
						bad++
						if first == "" {
							first = fmt.Sprintf("Convert with #%d returned (%v, %v)", id, v, err)
						}
						mu.Unlock()
					}
					return
				}
				rr = target.Call(append([]am.Arg{am.Typed(T0{ID: id})}, shared...)...)
				ok := rr.Err() == nil && rr.Len() == 1
				if ok {
					got, _ := idOfIface(rr.Out(0))
					ok = got == id
				}
				if !ok {
					mu.Lock()
					bad++
					if first == "" {
						first = fmt.Sprintf("call with #%d: Len()=%d Err()=%s", id, rr.Len(), firstLine(errStr(rr.Err())))
					}
					mu.Unlock()
				}
			}(g)
		}
		close(start)
		wg.Wait()
		res.Evals += G
		res.obs("concurrent_operations", G)
		if n := atomic.LoadInt64(&arrived); n == G {
			res.obs("rounds_with_all_calls_in_flight_together", 1)
		}
		if bad > 0 {
			res.violate("C12", "concurrent-outcome-differs", fmt.Sprintf("%d of %d calls that were in flight together returned an outcome no sequential execution of that call returns; first: %s", bad, G, first), det)
			break
		}
	}
	res.Sample = det
	return res
}

// runC12SharedFailingOptions: ONE option list with several malformed options
// (converters that are not functions) is shared by concurrent Calls, Converts
// and Redefines. Every one of them is refused with exactly the error text the
// same operation yields sequentially with a list of its own -- during the
// concurrent phase and afterwards (nothing accumulates in the shared options).
func runC12SharedFailingOptions(c *CaseCtx, r *rand.Rand) (res CaseResult) {
	res.NonTrivial = true
	res.Key = "shared-failing-options"
	res.obs("family.shared-failing-options", 1)
	det := map[string]interface{}{"case": res.Key}
	old := runtime.GOMAXPROCS(16)
	defer runtime.GOMAXPROCS(old)
	mkOpts := func() []am.Arg {
		return []am.Arg{am.Typed(T0{ID: 1}), am.Converter(42), am.Named("x", T1{ID: 2}), am.Converter("not a function", 3.5), am.Converter(struct{}{})}
	}
	f, err := am.NewFunc(func(a T0) T1 { return T1{ID: a.ID} })
	if err != nil {
		res.Skip = "newfunc"
		return res
	}
	text := func(op int, opts []am.Arg) string {
		switch op {
		case 0:
			rr := f.Call(opts...)
			return errStr(rr.Err())
		case 1:
			_, err := am.Convert(types[1], opts...)
			return errStr(err)
		default:
			_, err := f.Redefine(opts...)
			return errStr(err)
		}
	}
	var want [3]string
	for op := range want {
		want[op] = text(op, mkOpts())
		if want[op] == "" {
			res.violate("C06", "malformed-accepted/converter-42", "an operation with non-function converters returned no error", det)
			return res
		}
	}
	shared := mkOpts()
	G, per := 8, tierReps(c.Tier, 40, 100)
	var wg sync.WaitGroup
	var mu sync.Mutex
	bad, first := 0, ""
	start := make(chan struct{})
	for g := 0; g < G; g++ {
		wg.Add(1)
		go func(g int) {
			defer wg.Done()
			defer func() {
				if p := recover(); p != nil {
					mu.Lock()
					bad++
					if first == "" {
						first = fmt.Sprintf("panic: %v", p)
					}
					mu.Unlock()
				}
			}()
			<-start
			for k := 0; k < per; k++ {
				op := (g + k) % 3
				if got := text(op, shared); got != want[op] {
					mu.Lock()
					bad++
					if first == "" {
						first = fmt.Sprintf("operation %d: %q, sequentially %q", op, firstLine(got), firstLine(want[op]))
					}
					mu.Unlock()
				}
			}
		}(g)
	}
	close(start)
	wg.Wait()
	res.Evals += G * per
	res.obs("concurrent_operations", int64(G*per))
	for op := range want {
		if got := text(op, shared); got != want[op] {
			bad++
			if first == "" {
				first = fmt.Sprintf("after the concurrent phase, operation %d: %q, with fresh options %q", op, firstLine(got), firstLine(want[op]))
			}
		}
	}
	if bad > 0 {
		res.violate("C12", "concurrent-outcome-differs", fmt.Sprintf("%d operations refused for the shared malformed options returned another error than the same operation does sequentially; first: %s", bad, first), det)
	}
	res.Sample = det
	return res
}

// ---------------------------------------------------------------------------
// C09: planning through a converter whose memoized result is "all zero"
// ---------------------------------------------------------------------------

type c09ZOut struct {
	am.Struct
	A int
}

// c09ZWorld is one of two identical worlds: a converter string->int in one of
// the struct result forms, whose result is a nil pointer, a pointer to a zero
// struct or a pointer to / value of a non-zero struct, run-once or not; and a
// target int->int.
type c09ZWorld struct {
	conv, target *am.Func
	runs, ranT   int
}

func newC09ZWorld(form, kind int, once bool) (*c09ZWorld, error) {
	w := &c09ZWorld{}
	type in struct {
		am.Struct
		B string
	}
	mk := func() *c09ZOut {
		switch kind {
		case 0:
			return nil
		case 1:
			return &c09ZOut{}
		}
		return &c09ZOut{A: 41}
	}
	var fn interface{}
	if form == 0 {
		fn = func(i in) *c09ZOut { w.runs++; return mk() }
	} else {
		fn = func(i in) c09ZOut {
			w.runs++
			if p := mk(); p != nil {
				return *p
			}
			return c09ZOut{}
		}
	}
	var opts []am.Arg
	if once {
		opts = append(opts, am.FuncOnce())
	}
	var err error
	if w.conv, err = am.NewFunc(fn, opts...); err != nil {
		return nil, err
	}
	w.target, err = am.NewFunc(func(i struct {
		am.Struct
		A int
	}) int {
		w.ranT++
		return i.A + 1
	})
	return w, err
}

// snapshot of one direct use of the converter / the target through it
func (w *c09ZWorld) useConv() string {
	r := w.conv.Call(am.Named("b", "x"))
	s := fmt.Sprintf("err=%v len=%d", r.Err() != nil, r.Len())
	if r.Err() == nil && r.Len() > 0 {
		switch p := r.Out(0).(type) {
		case *c09ZOut:
			if p == nil {
				s += " out=nil-pointer"
			} else {
				s += fmt.Sprintf(" out=&{A:%d}", p.A)
			}
		case c09ZOut:
			s += fmt.Sprintf(" out={A:%d}", p.A)
		default:
			s += fmt.Sprintf(" out=%T", p)
		}
	}
	return s + fmt.Sprintf(" runs=%d", w.runs)
}

func (w *c09ZWorld) useTarget(f *am.Func) string {
	r := f.Call(am.Named("b", "x"), am.ConverterFunc(w.conv))
	s := fmt.Sprintf("err=%v len=%d", r.Err() != nil, r.Len())
	if r.Err() == nil && r.Len() > 0 {
		s += fmt.Sprintf(" out=%v", r.Out(0))
	}
	return s + fmt.Sprintf(" runs=%d ranT=%d", w.runs, w.ranT)
}

// runC09ZeroResults: twin worlds run the same history of real uses; world 1
// additionally plans (Redefine) between them, with a filter that forces the
// plan through the converter. Every real use must look the same in both
// worlds - in particular a memoized nil-pointer result stays a nil pointer -
// and planning runs nothing.
func runC09ZeroResults(c *CaseCtx, r *rand.Rand) (res CaseResult) {
	res.NonTrivial = true
	q := c.Idx / 40
	form, kind, once := q%2, (q/2)%3, (q/6)%3 < 2
	res.Key = fmt.Sprintf("zero-results form=%d kind=%d once=%v", form, kind, once)
	res.obs("family.zero-results-through-planning", 1)
	w1, e1 := newC09ZWorld(form, kind, once)
	w2, e2 := newC09ZWorld(form, kind, once)
	if e1 != nil || e2 != nil {
		res.Skip = "newfunc"
		return res
	}
	var hist []string
	det := func() interface{} { return map[string]interface{}{"case": res.Key, "history": strings.Join(hist, " ; ")} }
	// what the body returns, as useConv renders it
	wantOut := [][]string{{"nil-pointer", "&{A:0}", "&{A:41}"}, {"{A:0}", "{A:0}", "{A:41}"}}[form][kind]
	var redefined *am.Func
	n := 5 + r.Intn(8)
	for k := 0; k < n; k++ {
		op := r.Intn(4)
		if (q/18)%2 == 0 && k < 3 {
			// forced prefix: real use, planning, real use
			op = []int{0, 2, 0}[k]
		}
		switch {
		case op == 0:
			a, b := w1.useConv(), w2.useConv()
			hist = append(hist, "conv:"+a)
			res.Evals += 2
			if want := " out=" + wantOut + " "; a == b && !strings.Contains(a, want) {
				// both worlds agree, and both hand out something the body never returned
				res.violate("C11", "once-result-changed", "a direct call of the converter returned"+want+"on its execution, a later use sees "+a, det())
				return res
			}
			if a != b {
				res.violate("C09", "not-as-before", "a direct use of the converter differs from the world that never planned: "+a+" vs "+b, det())
				return res
			}
		case op == 1:
			a, b := w1.useTarget(w1.target), w2.useTarget(w2.target)
			hist = append(hist, "target:"+a)
			res.Evals += 2
			if a != b {
				res.violate("C09", "not-as-before", "a call of the target through the converter differs from the world that never planned: "+a+" vs "+b, det())
				return res
			}
		case op == 2 || redefined == nil:
			runs, ranT := w1.runs, w1.ranT
			var rf *am.Func
			var err error
			func() {
				defer func() {
					if p := recover(); p != nil {
						res.violate("C06", "panic/redefine-"+crashKey(fmt.Sprint(p)), fmt.Sprintf("Redefine panicked: %v", p), det())
					}
				}()
				rf, err = w1.target.Redefine(am.ConverterFunc(w1.conv), am.FilterInput(am.FilterType(reflect.TypeOf(""))))
			}()
			hist = append(hist, fmt.Sprintf("redefine:err=%v", err != nil))
			res.Evals++
			res.obs("redefines", 1)
			if w1.runs != runs || w1.ranT != ranT {
				res.violate("C09", "executed-during-redefine", fmt.Sprintf("Redefine ran user code: converter %d->%d, target %d->%d", runs, w1.runs, ranT, w1.ranT), det())
				return res
			}
			if err != nil || rf == nil {
				res.violate("C08", "redefine-refused", fmt.Sprintf("Redefine refused a plan through the converter: %v", err), det())
				return res
			}
			redefined = rf
		default:
			// the redefined function, against the original target of world 2
			r1 := redefined.Call(am.Named("b", "x"))
			a := fmt.Sprintf("err=%v", r1.Err() != nil)
			if r1.Err() == nil && r1.Len() > 0 {
				a += fmt.Sprintf(" out=%v", r1.Out(0))
			}
			a += fmt.Sprintf(" runs=%d ranT=%d", w1.runs, w1.ranT)
			r2 := w2.target.Call(am.Named("b", "x"), am.ConverterFunc(w2.conv))
			b := fmt.Sprintf("err=%v", r2.Err() != nil)
			if r2.Err() == nil && r2.Len() > 0 {
				b += fmt.Sprintf(" out=%v", r2.Out(0))
			}
			b += fmt.Sprintf(" runs=%d ranT=%d", w2.runs, w2.ranT)
			hist = append(hist, "redefined:"+a)
			res.Evals += 2
			res.obs("redefined_calls", 1)
			if a != b {
				res.violate("C08", "redefined-result", "the redefined function differs from the original called with the same value: "+a+" vs "+b, det())
				return res
			}
		}
	}
	res.Sample = det()
	return res
}

// ---------------------------------------------------------------------------
// C06/C02: histories over a dependency CYCLE of multi-input converters, some
// of them run-once
// ---------------------------------------------------------------------------

// runOnceCycleHistory: converters X:(A,C)->B, Y:(A,E)->C, Z:(B)->E depend on
// each other in a cycle; any subset is run-once. Earlier calls of a history
// break the cycle with extra inputs (and so execute and memoize the run-once
// ones); later calls, and Redefine restricted to A, have the cycle as their
// only route. Every call returns within the nesting bound; a target whose
// type is not in the closure of the supplied types under the converters is
// refused (error, target not run).
func runOnceCycleHistory(c *CaseCtx, r *rand.Rand) (res CaseResult) {
	t := distinctTypes(r, 4)
	A, B, C, E := t[0], t[1], t[2], t[3]
	q := c.Idx / 45
	mask := []int{3, 7, 1, 2, 5, 6, 0, 3}[q%8]
	res.Key = fmt.Sprintf("once-cycle %v once-mask=%d", t, mask)
	res.NonTrivial = true
	res.obs("family.once-cycle-history", 1)
	meter := &depthMeter{limitDepth: 60, limitEntries: 200000}
	casePointHook = meter.hook
	defer func() { casePointHook = nil }()
	w := NewWorld()
	specs := []FuncSpec{posFn([]int{A, C}, []int{B}), posFn([]int{A, E}, []int{C}), posFn([]int{B}, []int{E})}
	var convs []am.Arg
	for i := range specs {
		specs[i].Once = mask&(1<<uint(i)) != 0
		b, err := w.Build(i, specs[i], r)
		if err != nil {
			res.Skip = "instantiate"
			return res
		}
		convs = append(convs, am.ConverterFunc(b.Func))
	}
	targets := map[int]*Built{}
	for i, ty := range []int{B, C, E} {
		b, err := w.Build(-1-i, posFn([]int{ty}, nil), r)
		if err != nil {
			res.Skip = "instantiate"
			return res
		}
		targets[ty] = b
	}
	closure := func(have map[int]bool) map[int]bool {
		d := map[int]bool{}
		for k := range have {
			d[k] = true
		}
		for ch := true; ch; {
			ch = false
			for _, sp := range specs {
				ok := true
				for _, l := range sp.In {
					ok = ok && d[l.Type]
				}
				if ok && !d[sp.Out[0].Type] {
					d[sp.Out[0].Type], ch = true, true
				}
			}
		}
		return d
	}
	type step struct {
		want     int
		extra    []int
		redefine bool
	}
	var steps []step
	if q%2 == 0 {
		// the cycle is broken first at C, then at E; then nothing breaks it
		steps = []step{{want: B, extra: []int{C}}, {want: C, extra: []int{E}}, {want: B, redefine: q%4 == 2}}
	}
	for n := 3 + r.Intn(5); len(steps) < n+3; {
		st := step{want: []int{B, C, E}[r.Intn(3)], redefine: r.Intn(5) == 0}
		for _, ty := range []int{B, C, E} {
			if ty != st.want && r.Intn(3) == 0 {
				st.extra = append(st.extra, ty)
			}
		}
		steps = append(steps, st)
	}
	var hist []string
	for k, st := range steps {
		have := map[int]bool{A: true}
		args := append([]am.Arg{}, convs...)
		args = append(args, InputArg(Label{Type: A}, w.FreshInput(k, A, Label{Type: A})))
		for _, ty := range st.extra {
			have[ty] = true
			if !st.redefine {
				args = append(args, InputArg(Label{Type: ty}, w.FreshInput(k, ty, Label{Type: ty})))
			}
		}
		tgt := targets[st.want]
		fi := map[int]int{B: -1, C: -2, E: -3}[st.want]
		ranBefore := w.Execs(fi)
		derivable := closure(have)[st.want]
		var o Outcome
		api := "call"
		if st.redefine {
			api = "redefine"
			allowed := have
			args = append(convs[:3:3], am.FilterInput(func(v am.Value) bool {
				for ty := range allowed {
					if v.Type == types[ty] {
						return true
					}
				}
				return false
			}))
			o = DoRedefine(w, tgt.Func, args)
		} else {
			o = DoCall(w, tgt.Func, args)
		}
		hist = append(hist, fmt.Sprintf("%s want=%s have=A+%v -> %s", api, typeName(st.want), st.extra, o.Class))
		det := map[string]interface{}{"case": res.Key, "history": strings.Join(hist, " ; "), "err": firstLine(errStr(o.Err)), "panic": o.Panic}
		res.Evals++
		res.obs("api."+api, 1)
		res.obs(fmt.Sprintf("class.%s.%s.derivable=%v", api, o.Class, derivable), 1)
		res.max("max_reach_depth", int64(meter.maxDepth))
		if o.Class == ClsPanic {
			key := "panic/" + crashKey(o.Panic)
			if meter.tripped != "" {
				key = "bound/" + meter.tripped
			}
			res.violate("C06", key, api+" panicked: "+o.Panic, det)
			return res
		}
		meter.reset()
		ran := w.Execs(fi) - ranBefore
		if !derivable {
			res.obs("cycle_only_requests", 1)
			if o.Err == nil {
				res.violate("C02", "underivable-accepted", fmt.Sprintf("%s: the wanted type is only reachable round the cycle, yet no error was returned", api), det)
				return res
			}
			if ran != 0 {
				res.violate("C02", "underivable-target-ran", fmt.Sprintf("%s: the target ran %d times although its argument cannot be derived", api, ran), det)
				return res
			}
		}
		if derivable && o.Err != nil {
			res.violate("C05", "incomplete/"+o.Class, fmt.Sprintf("%s: the wanted type is in the closure of the supplied types under the converters, yet the request failed", api), det)
			return res
		}
		if derivable && !st.redefine && ran != 1 {
			res.violate("C04", "target-count", fmt.Sprintf("successful call executed the target %d times", ran), det)
			return res
		}
		if st.redefine && (ran != 0 || len(o.Events) != 0) {
			res.violate("C09", "executed-during-redefine", "bodies executed during Redefine: "+eventsStr(o.Events), det)
			return res
		}
		for i := range specs {
			if specs[i].Once && w.Execs(i) > 1 {
				res.violate("C11", "once-reexecuted", fmt.Sprintf("run-once converter c%d executed %d times over the history", i, w.Execs(i)), det)
				return res
			}
		}
	}
	res.Sample = map[string]interface{}{"case": res.Key, "history": strings.Join(hist, " ; ")}
	return res
}

// ---------------------------------------------------------------------------
// C05: requirements re-labelled through the pointers ValueSet.Named / Typed
// hand out ("to make modifications")
// ---------------------------------------------------------------------------

// runC05Retagged: a chain T0 -> c1 -> T1 ("mid") -> c2 -> T2 -> target. Over a
// history, requirements of the functions are given a subtype through
// Input()/Output() pointers after construction (and after earlier calls);
// each later call supplies inputs matching the CURRENT labels, so the target
// stays derivable: every call succeeds and the target sees the value
// derived from the input of that call.
func runC05Retagged(c *CaseCtx, r *rand.Rand) (res CaseResult) {
	res.NonTrivial = true
	q := c.Idx / 43
	res.Key = fmt.Sprintf("retagged-requirements order=%d", q%6)
	res.obs("family.retagged-requirements", 1)
	res.obs("in_scope.a", 1)
	type mid struct {
		am.Struct
		Mid T1
	}
	var seen int64
	mk := func(fn interface{}) *am.Func {
		f, err := am.NewFunc(fn)
		if err != nil {
			panic(err)
		}
		return f
	}
	c1 := mk(func(a T0) (mid, error) { return mid{Mid: T1{ID: a.ID + 1000}}, nil })
	c2 := mk(func(in struct {
		am.Struct
		Mid T1
	}) T2 {
		return T2{ID: in.Mid.ID + 1000000}
	})
	target := mk(func(x T2) int64 { seen = x.ID; return x.ID })
	in0 := func(id int64) am.Arg { return am.Typed(T0{ID: id}) }
	var hist []string
	next := int64(c.Idx%1000)*100 + 1
	call := func(what string, want int64, args ...am.Arg) bool {
		seen = -1
		o := DoCall(nil, target, append(args, am.ConverterFunc(c1, c2)))
		res.Evals++
		hist = append(hist, what+"->"+o.Class)
		det := map[string]interface{}{"case": res.Key, "history": strings.Join(hist, " ; "), "err": firstLine(errStr(o.Err)), "panic": o.Panic}
		if o.Class == ClsPanic {
			res.violate("C06", "panic/call-"+crashKey(o.Panic), "call panicked: "+o.Panic, det)
			return false
		}
		if o.Class != ClsOK {
			res.violate("C05", "incomplete/"+o.Class, "the supplied inputs match the functions' current requirements along an acyclic chain, but the call ended with "+o.Class+": "+firstLine(errStr(o.Err)), det)
			return false
		}
		if seen != want {
			res.violate("C01", "binding/other", fmt.Sprintf("the target saw %d, the value derived from this call's input is %d", seen, want), det)
			return false
		}
		return true
	}
	if !call("baseline", next+1001000, in0(next)) {
		return res
	}
	// the target's own parameter is re-labelled last: a chain call after it
	// would need c2's (unlabelled) output to satisfy a subtyped parameter,
	// which the property does not promise
	steps := [][]int{{0, 1, 2}, {1, 0, 2}, {0, 2}, {1, 2}, {1, 0}, {0, 1}}[q%6]
	for _, st := range steps {
		next++
		switch st {
		case 0: // the chain's entry requirement gets a subtype
			sub := []string{"decimal", "x", "Ab"}[r.Intn(3)]
			c1.Input().Typed(reflect.TypeOf(T0{})).Subtype = sub
			in0 = func(id int64) am.Arg { return am.TypedSubtype(T0{ID: id}, sub) }
			if !call("entry-subtype="+sub, next+1001000, in0(next)) {
				return res
			}
		case 1: // the named value between the two converters, both sides
			c1.Output().Named("mid").Subtype = "tcp"
			c2.Input().Named("mid").Subtype = "tcp"
			if !call("mid-subtype", next+1001000, in0(next)) {
				return res
			}
		case 2: // the target's own parameter, supplied exactly
			target.Input().Typed(reflect.TypeOf(T2{})).Subtype = "fin"
			if !call("target-subtype-exact", next, am.TypedSubtype(T2{ID: next}, "fin")) {
				return res
			}
		}
		res.obs("calls_after_retagging", 1)
	}
	res.Sample = map[string]interface{}{"case": res.Key, "history": strings.Join(hist, " ; ")}
	return res
}

// ---------------------------------------------------------------------------
// C12: a shared function with MANY default options, called concurrently with
// FEW call-time options
// ---------------------------------------------------------------------------

// runC12FewCallOptions: a shared target func(T0, T1, T2) string carries D
// default options (D = 0..14: constant T1/T2 values and repeated names), so
// that the library's own copy of the defaults has whatever spare capacity D
// gives it; 8-16 goroutines call it with only k = 1..3 call-time options
// (their own values). Every call must see its own values (for the parameters
// it passes) and the defaults (for the others), and the race detector must
// stay silent: combining defaults and call-time options must not write into
// storage that calls share.
func runC12FewCallOptions(c *CaseCtx, r *rand.Rand) (res CaseResult) {
	res.NonTrivial = true
	q := c.Idx / 35
	pads := q % 13
	k := 1 + (q/13)%3
	res.Key = fmt.Sprintf("few-call-options pads=%d k=%d", pads, k)
	res.obs("family.few-call-options", 1)
	det := map[string]interface{}{"case": res.Key}
	old := runtime.GOMAXPROCS(16)
	defer runtime.GOMAXPROCS(old)
	defs := []am.Arg{am.Typed(T1{ID: -11}), am.Typed(T2{ID: -12})}
	for i := 0; i < pads; i++ {
		defs = append(defs, am.FuncName("shared-target"))
	}
	r.Shuffle(len(defs), func(i, j int) { defs[i], defs[j] = defs[j], defs[i] })
	target, err := am.NewFunc(func(a T0, b T1, c T2) string { return fmt.Sprintf("%d/%d/%d", a.ID, b.ID, c.ID) }, defs...)
	if err != nil {
		res.Skip = "newfunc"
		return res
	}
	res.max("max_default_options_of_the_shared_target", int64(len(defs)))
	G, per := 8+r.Intn(9), tierReps(c.Tier, 150, 400)
	var wg sync.WaitGroup
	var mu sync.Mutex
	bad, first := 0, ""
	start := make(chan struct{})
	for g := 0; g < G; g++ {
		wg.Add(1)
		go func(g int) {
			defer wg.Done()
			defer func() {
				if p := recover(); p != nil {
					mu.Lock()
					bad++
					if first == "" {
						first = fmt.Sprintf("panic: %v", p)
					}
					mu.Unlock()
				}
			}()
			<-start
			for n := 0; n < per; n++ {
				id := int64(g*1000000 + n*10 + 1)
				args := []am.Arg{am.Typed(T0{ID: id})}
				want := []int64{id, -11, -12}
				if k >= 2 {
					args = append(args, am.Typed(T1{ID: id + 1}))
					want[1] = id + 1
				}
				if k >= 3 {
					args = append(args, am.Typed(T2{ID: id + 2}))
					want[2] = id + 2
				}
				rr := target.Call(args...)
				got := ""
				if rr.Err() == nil && rr.Len() == 1 {
					got, _ = rr.Out(0).(string)
				}
				if exp := fmt.Sprintf("%d/%d/%d", want[0], want[1], want[2]); got != exp {
					mu.Lock()
					bad++
					if first == "" {
						first = fmt.Sprintf("call with own values #%d returned %q (err %v), sequentially it returns %q", id, got, rr.Err(), exp)
					}
					mu.Unlock()
				}
			}
		}(g)
	}
	close(start)
	wg.Wait()
	res.Evals += G * per
	res.obs("concurrent_operations", int64(G*per))
	if bad > 0 {
		res.violate("C12", "concurrent-outcome-differs", fmt.Sprintf("%d of %d concurrent calls of a shared function with %d default options and %d call-time option(s) returned an outcome no sequential execution of that call returns; first: %s", bad, G*per, len(defs), k, first), det)
	}
	res.Sample = det
	return res
}
