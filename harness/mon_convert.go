package main

import (
	"fmt"
	"math/rand"
	"reflect"
	"strings"

	am "github.com/hashicorp/go-argmapper"
)

// ---------------------------------------------------------------------------
// C10 — Convert agrees with calling an identity function of the target type
// ---------------------------------------------------------------------------

func init() {
	register(&Monitor{
		ID:    "C10",
		Cases: func(t string) int { return tierN(t, 8000, 150000) },
		Rule: "target type T drawn from the 6 concrete and 2 interface types; arguments from G-general, constructive chains/DAGs/cycles and the layered generator (the scenario's target is func(T) T); " +
			"oracle 1 (every case): err!=nil => nil value; err==nil => non-nil value whose dynamic type is assignable to T and whose provenance obeys the C01 binding rule for a type-only parameter T; C04 holds for the log; MAY-underivable T => error. " +
			"oracle 2 (differential, outcome-stable cases only = MAY-underivable or C05 scope without failing converters): Convert in world W1 and NewFunc(identity func(T) T).Call in a twin world W2 built from the same spec have the same outcome class; " +
			"in W2 Out(0) is the value the identity function received. non-trivial = at least one converter executed in W1 or the case is underivable with converters present",
		Assumptions: []string{"outcome equality with the twin is demanded only where the outcome class is a singleton; elsewhere both runs are still checked individually"},
		Run:         runC10,
	})
}

// runC10Special: target types outside the plain universe — a struct (or
// pointer to struct) embedding argmapper.Struct, whose fields are the
// requirements, and an interface type whose only producer legitimately
// yields a nil interface value.
func runC10Special(c *CaseCtx, r *rand.Rand) (res CaseResult) {
	res.NonTrivial = true
	defer func() {
		if p := recover(); p != nil {
			res.violate("C06", "panic/convert-"+crashKey(fmt.Sprint(p)), fmt.Sprintf("panicked: %v", p), map[string]interface{}{"case": res.Key})
		}
	}()
	if (c.Idx/10)%9 == 4 {
		// a history of Converts to two DIFFERENT types that print alike (two
		// function-local "unit" types), each with a value of exactly its
		// type: every one agrees with calling an identity function of that
		// type, whatever was converted before in this process
		ta := reflect.TypeOf(sameNamedParamA()).In(0)
		tb := reflect.TypeOf(sameNamedParamB()).In(0)
		res.Key = "same-printing-target-types"
		res.obs("family.same-printing-target-types", 1)
		var hist []string
		for k := 0; k < tierReps(c.Tier, 8, 20); k++ {
			t, v := ta, reflect.ValueOf(int64(k+5)).Convert(ta).Interface()
			if (k+c.Idx/90)%2 == 1 || r.Intn(3) == 0 {
				t, v = tb, reflect.ValueOf(fmt.Sprintf("u%d", k)).Convert(tb).Interface()
			}
			hist = append(hist, fmt.Sprintf("%v(%v)", t.Kind(), v))
			det := map[string]interface{}{"case": res.Key, "history": strings.Join(hist, " ; ")}
			idf, ierr := am.NewFunc(reflect.MakeFunc(reflect.FuncOf([]reflect.Type{t}, []reflect.Type{t}, false), func(in []reflect.Value) []reflect.Value { return in }).Interface())
			if ierr != nil {
				res.Skip = "newfunc"
				return res
			}
			var want interface{}
			rr := idf.Call(am.Typed(v))
			if rr.Err() == nil {
				want = rr.Out(0)
			}
			got, err := am.Convert(t, am.Typed(v))
			res.Evals += 2
			if (err == nil) != (rr.Err() == nil) || !reflect.DeepEqual(got, want) {
				res.violate("C10", "differs-from-identity-call", fmt.Sprintf("Convert(%v %v) returned (%#v, %v), the identity call (%#v, %v)", t, t.Kind(), got, firstLine(errStr(err)), want, firstLine(errStr(rr.Err()))), det)
				return res
			}
			if err == nil && reflect.TypeOf(got) != t {
				res.violate("C10", "wrong-type", fmt.Sprintf("Convert(%v %v) returned a %T (%v)", t, t.Kind(), got, reflect.TypeOf(got).Kind()), det)
				return res
			}
		}
		return res
	}
	if r.Intn(4) == 0 {
		// the wanted interface type is only produced as a DIFFERENT interface
		// type with the same method set (each implements the other),
		// directly or through one more single-input converter
		chain := r.Intn(2) == 0
		res.Key = fmt.Sprintf("twin-interface-producer chain=%v", chain)
		det := map[string]interface{}{"case": res.Key}
		args := []am.Arg{am.Typed(T3{ID: 4}), am.Converter(func(a T3) I0twin { return T0{ID: a.ID + 1000} })}
		want := types[tI0]
		if chain {
			args = []am.Arg{am.Typed(T4{ID: 4}), am.Converter(func(a T4) T3 { return T3{ID: a.ID} }), args[1]}
		}
		if r.Intn(2) == 0 {
			// the other direction
			want = reflect.TypeOf((*I0twin)(nil)).Elem()
			args[len(args)-1] = am.Converter(func(a T3) I0 { return T0{ID: a.ID + 1000} })
		}
		for k := 0; k < tierReps(c.Tier, 15, 40); k++ {
			v, err := am.Convert(want, args...)
			res.Evals++
			if err != nil || v == nil {
				res.violate("C10", "differs-from-identity-call", fmt.Sprintf("the type is derivable through single-input converters (an identity call succeeds) but Convert returned (%v, %v)", v, firstLine(errStr(err))), det)
				break
			}
			if id, _ := idOfIface(v); id != 1004 {
				res.violate("C10", "value-differs", fmt.Sprintf("Convert returned #%d, the converter produced #1004", id), det)
				break
			}
		}
		res.obs("twin_interface_cases", 1)
		res.Sample = det
		return res
	}
	if r.Intn(3) == 0 {
		// nil interface value from the only producer
		res.Key = "nil-interface-producer"
		execs := 0
		conv, _ := am.NewFunc(func(a T0) I1 { execs++; return nil })
		args := []am.Arg{am.Typed(T0{ID: 5}), am.ConverterFunc(conv)}
		v, err := am.Convert(types[tI1], args...)
		res.Evals++
		idf, _ := am.NewFunc(func(x I1) I1 { return x })
		rr := idf.Call(args...)
		res.Evals++
		det := map[string]interface{}{"case": res.Key, "convert_err": errStr(err), "identity_err": errStr(rr.Err())}
		if (err == nil) != (rr.Err() == nil) {
			res.violate("C10", "differs-from-identity-call", fmt.Sprintf("producer yields a nil interface value: Convert err=%v, identity call err=%v", err != nil, rr.Err() != nil), det)
		}
		if err == nil && v != nil {
			res.violate("C10", "value-differs", "Convert returned a non-nil value although the producer returned nil", det)
		}
		if rr.Err() == nil && (rr.Len() != 1 || rr.Out(0) != nil) {
			res.violate("C17", "out", "identity call did not hand on the nil interface value", det)
		}
		res.obs("nil_interface_cases", 1)
		res.Sample = det
		return res
	}
	// struct target
	nf := 1 + r.Intn(3)
	perm := r.Perm(nConcrete)
	var ls []Label
	for i := 0; i < nf; i++ {
		l := Label{Type: perm[i]}
		if r.Intn(2) == 0 {
			l.Name = []string{"a", "b", "c"}[i]
		}
		ls = append(ls, l)
	}
	ptr := r.Intn(2) == 0
	st := structType(ls, ptr, "cv", r, false)
	res.Key = "struct-target " + labelsStr(ls) + fmt.Sprint(ptr)
	// each field has an exact input, except possibly one that is converted
	var args []am.Arg
	want := map[int]int64{}
	var id int64 = 10
	conv := -1
	if r.Intn(2) == 0 {
		conv = r.Intn(nf)
	}
	var convID int64
	for i, l := range ls {
		id++
		if i == conv {
			src := perm[nf] // a type not used by any field
			convID = id
			args = append(args, am.Typed(mk(src, id).Interface()))
			out := l
			ft := reflect.FuncOf([]reflect.Type{types[src]}, []reflect.Type{structType([]Label{out}, false, "cvo", r, false)}, false)
			fn := reflect.MakeFunc(ft, func(a []reflect.Value) []reflect.Value {
				o := reflect.New(ft.Out(0)).Elem()
				o.Field(1).Set(mk(out.Type, 1000+a[0].Field(0).Int()))
				return []reflect.Value{o}
			})
			args = append(args, am.Converter(fn.Interface()))
			want[i] = 1000 + id
			continue
		}
		want[i] = id
		args = append(args, am.NamedSubtype(l.Name, mk(l.Type, id).Interface(), ""))
	}
	_ = convID
	r.Shuffle(len(args), func(i, j int) { args[i], args[j] = args[j], args[i] })
	v, err := am.Convert(st, args...)
	res.Evals++
	idfn := reflect.MakeFunc(reflect.FuncOf([]reflect.Type{st}, []reflect.Type{st}, false), func(a []reflect.Value) []reflect.Value { return a })
	idf, ferr := am.NewFunc(idfn.Interface())
	det := map[string]interface{}{"case": res.Key, "convert_err": firstLine(errStr(err))}
	if ferr != nil {
		res.violate("C14", "accepted-shape-rejected", "NewFunc rejected func(S) S: "+ferr.Error(), det)
		return res
	}
	rr := idf.Call(args...)
	res.Evals++
	det["identity_err"] = firstLine(errStr(rr.Err()))
	fieldsOf := func(x interface{}) map[int]int64 {
		m := map[int]int64{}
		if x == nil {
			return m
		}
		sv := reflect.ValueOf(x)
		if sv.Kind() == reflect.Ptr {
			if sv.IsNil() {
				return m
			}
			sv = sv.Elem()
		}
		for i := range ls {
			m[i], _ = idOf(sv.Field(i + 1))
		}
		return m
	}
	if (err == nil) != (rr.Err() == nil) {
		res.violate("C10", "differs-from-identity-call", fmt.Sprintf("struct target: Convert err=%v, identity call err=%v", err != nil, rr.Err() != nil), det)
	}
	if err != nil {
		res.violate("C05", "incomplete/convert-struct", "every field of the struct target has an input (or a one-step conversion) but Convert failed: "+firstLine(errStr(err)), det)
	} else {
		if v == nil || !reflect.TypeOf(v).AssignableTo(st) {
			res.violate("C10", "not-assignable", fmt.Sprintf("Convert returned %T for target %v", v, st), det)
		} else if got := fieldsOf(v); !reflect.DeepEqual(got, want) {
			res.violate("C10", "value-differs", fmt.Sprintf("struct target fields carry %v, want %v", got, want), det)
		}
	}
	if rr.Err() == nil {
		if got := fieldsOf(rr.Out(0)); !reflect.DeepEqual(got, want) {
			res.violate("C03", "named-not-exact", fmt.Sprintf("identity call on the struct type: fields carry %v, want %v", got, want), det)
		}
	}
	res.obs("struct_target_cases", 1)
	res.Sample = det
	return res
}

func runC10(c *CaseCtx) (res CaseResult) {
	r := caseRand(c.Seed, "C10", c.Idx)
	if c.Idx%10 == 7 {
		return runC10Special(c, r)
	}
	var s Scenario
	fam := ""
	switch x := r.Intn(100); {
	case x < 35:
		s = defaultCfg.Scenario(r)
		fam = "general"
	case x < 55:
		s = Layered(r, r.Intn(2) == 0, 0.1)
		fam = "layered"
	case x < 75:
		s, _ = Constructive(r, ChainCfg{MaxTgt: 1, MaxDepth: 5, Cycles: true, Distract: 2, BuiltP: 0.1, Subtypes: true, Ifaces: true, ErrP: 0.3, DistractIn: 2, FailP: 0.05})
		fam = "cycle"
	case x < 90:
		s, _ = Constructive(r, ChainCfg{MaxTgt: 1, MaxDepth: 4, MultiIn: true, Distract: 2, BuiltP: 0.1, Subtypes: true, Ifaces: true, ErrP: 0.3, DistractIn: 2, FailP: 0.05})
		fam = "dag"
	default:
		s, fam = Hostile(r)
		for r.Intn(3) == 0 && fam != "assignable-not-identical" {
			// the family over types that Go considers assignable more often
			s, fam = Hostile(r)
		}
		fam = "hostile/" + fam
	}
	if r.Intn(6) == 0 {
		// same model over unnamed / mutually assignable / func / chan types
		s = exoticize(s, r)
	}
	if usesExotic(s) {
		res.obs("cases_over_exotic_types", 1)
	}
	// the conversion target: a parameter type of the generated target (so
	// that constructive cases are derivable), or a random type
	T := r.Intn(nTypes)
	if usesExotic(s) && r.Intn(2) == 0 {
		T = nTypes + r.Intn(len(exoticTypes))
	}
	if len(s.Target.In) > 0 && r.Intn(4) > 0 {
		T = s.Target.In[0].Type
		if s.Target.In[0].Name != "" || s.Target.In[0].Sub != "" {
			// derivability of the bare type is not implied; still fine
		}
	}
	s.Target = FuncSpec{In: []Label{{Type: T}}, Out: []Label{{Type: T}}, InForm: FormPos, OutForm: FormPos}
	dedupeTypes(&s)
	fixDelivery(&s, r)
	res.Key = s.Key()
	res.obs("family."+fam, 1)
	cf := factsOf(&s)
	anyFail := false
	for _, cv := range s.Convs {
		if cv.Fail {
			anyFail = true
		}
	}
	stable := ""
	if !cf.fMay.AllOK {
		stable = "underivable"
	} else if !anyFail && inScopeC05(&s, &cf) != "" {
		stable = "scope-" + inScopeC05(&s, &cf)
	}
	if stable != "" {
		res.obs("stable."+stable, 1)
	}
	reps := tierReps(c.Tier, 3, 6)
	for k := 0; k < reps; k++ {
		seed := r.Int63()
		in1, err := Instantiate(s, rand.New(&splitmix{s: uint64(seed)}))
		if err != nil {
			res.Skip = "instantiate"
			return res
		}
		in2, _ := Instantiate(s, rand.New(&splitmix{s: uint64(seed)}))
		sh := r.Int63()
		a1 := in1.AllArgs(0, rand.New(&splitmix{s: uint64(sh)}))
		a2 := in2.AllArgs(0, rand.New(&splitmix{s: uint64(sh)}))
		if r.Intn(5) == 0 {
			pollute(r)
			res.obs("operations_preceded_by_an_unrelated_failing_one", 1)
		}
		if c.Idx%4 == 2 && !anyOnce(&s) {
			// history: the SAME conversion (target, converters, names and
			// types of the values) was first asked for with values that carry
			// other subtypes -- whatever became of it, it says nothing about
			// the conversion checked next (the twin world gets the same
			// preface through its identity function)
			pre := func(in *Inst) []am.Arg {
				args := append([]am.Arg{}, in.ConvArgs...)
				for i, l := range s.Inputs {
					if l.Sub != "" {
						l.Sub += "q"
					} else {
						l.Sub = "zq"
					}
					args = append(args, InputArg(l, in.W.FreshInput(5, i, l)))
				}
				return args
			}
			DoConvert(in1.W, types[T], pre(in1))
			DoCall(in2.W, in2.Target.Func, pre(in2))
			res.obs("conversions_after_the_same_conversion_with_other_subtypes", 1)
		}
		o1 := DoConvert(in1.W, types[T], a1)
		res.Evals++
		det := map[string]interface{}{"scenario": s.String(), "T": typeName(T), "class": o1.Class, "err": firstLine(errStr(o1.Err)), "panic": o1.Panic, "events": eventsStr(o1.Events)}
		if c.Verbose {
			fmt.Printf("convert: class=%s err=%s events=%s\n", o1.Class, firstLine(errStr(o1.Err)), eventsStr(o1.Events))
		}
		if o1.Touched != "" {
			// Convert(T, all[:k]...) followed by Convert(T2, all...) is no
			// longer a conversion "with the same args" the caller wrote
			res.violate("C10", "caller-option-slice-written", "Convert wrote into the caller's option slice: "+o1.Touched, det)
		}
		if o1.Class == ClsPanic {
			res.violate("C06", "panic/convert-"+crashKey(o1.Panic), "Convert panicked: "+o1.Panic, det)
			continue
		}
		if convEvents(o1.Events) > 0 || (stable == "underivable" && len(s.Convs) > 0) {
			res.NonTrivial = true
		}
		// oracle 1
		if o1.Err != nil {
			if o1.Value != nil {
				res.violate("C10", "value-with-error", "Convert returned both an error and a non-nil value", det)
			}
		} else {
			if o1.Value == nil {
				res.violate("C10", "nil-without-error", "Convert returned neither a value nor an error", det)
			} else {
				if !reflect.TypeOf(o1.Value).AssignableTo(types[T]) {
					res.violate("C10", "not-assignable", fmt.Sprintf("Convert returned a %T, not assignable to %s", o1.Value, typeName(T)), det)
				}
				id, conc := idOfIface(o1.Value)
				pseudo := &Event{Seq: in1.W.NumEvents(), Func: -1, Args: []ArgObs{{Param: Label{Type: T}, ID: id, Conc: conc}}}
				for _, msg := range checkBinding(in1.W, append(o1.Events, pseudo), BindingOpts{AllowedCalls: map[int]bool{0: true}}) {
					res.violate("C01", "binding/"+bindingKind(msg), "Convert: "+msg, det)
				}
				res.obs("converted_values_checked", 1)
			}
		}
		if !cf.fMay.AllOK && o1.Err == nil {
			res.violate("C02", "underivable-accepted", "the target type is not derivable yet Convert returned a value", det)
		}
		// C04 over Convert's log
		var firstFail *Event
		for _, e := range o1.Events {
			if e.Err != nil {
				firstFail = e
				break
			}
		}
		if firstFail != nil {
			if o1.Err != firstFail.Err {
				res.violate("C04", "error-not-verbatim", "a converter failed during Convert but another error (or none) was returned", det)
			}
			if last := o1.Events[len(o1.Events)-1]; last != firstFail {
				res.violate("C04", "continued-after-error", "a converter failed during Convert but execution continued", det)
			}
		}
		// oracle 2: twin world with a real identity function
		var got int64 = -1
		ft := reflect.FuncOf([]reflect.Type{types[T]}, []reflect.Type{types[T]}, false)
		idf := reflect.MakeFunc(ft, func(args []reflect.Value) []reflect.Value {
			got, _ = idOf(args[0])
			return args
		})
		f, ferr := am.NewFunc(idf.Interface())
		if ferr != nil {
			res.violate("C10", "identity-rejected", "NewFunc rejected func(T) T: "+ferr.Error(), det)
			continue
		}
		o2 := DoCall(in2.W, f, a2)
		res.Evals++
		if o2.Class == ClsPanic {
			res.violate("C06", "panic/identity-call-"+crashKey(o2.Panic), "Call of the identity function panicked: "+o2.Panic, det)
			continue
		}
		if o2.Err == nil {
			if o2.Res.Len() != 1 {
				res.violate("C17", "len", fmt.Sprintf("identity call: Len() = %d", o2.Res.Len()), det)
			} else if id2, _ := idOfIface(o2.Res.Out(0)); id2 != got {
				res.violate("C17", "out-differs", fmt.Sprintf("identity call: Out(0) carries #%d, the function received #%d", id2, got), det)
			}
		}
		if stable != "" {
			c1, c2 := o1.Class, o2.Class
			if (c1 == ClsOK) != (c2 == ClsOK) {
				res.violate("C10", "differs-from-identity-call", fmt.Sprintf("stable case (%s): Convert ended %s, Call of func(T) T ended %s", stable, c1, c2), det)
			}
			if stable != "underivable" && c1 != ClsOK {
				res.violate("C05", "incomplete/convert-"+c1, fmt.Sprintf("stable case (%s): the type is derivable but Convert ended %s", stable, c1), det)
			}
			res.obs("differential_comparisons", 1)
		}
		res.obs("class."+o1.Class, 1)
	}
	res.Sample = map[string]interface{}{"scenario": s.String(), "T": typeName(T), "stable": stable}
	return res
}

func anyOnce(s *Scenario) bool {
	for _, cv := range s.Convs {
		if cv.Once {
			return true
		}
	}
	return s.Target.Once
}
