package main

import (
	"errors"
	"fmt"
	"io"
	"math/rand"
	"reflect"
	"strings"
	"sync"
	"time"
	"unicode"
	"unicode/utf8"

	am "github.com/hashicorp/go-argmapper"
	"github.com/hashicorp/go-hclog"
	"github.com/hashicorp/go-multierror"
)

// ---------------------------------------------------------------------------
// Type universe: six distinct concrete types and two interfaces. Every value
// handed to the library carries a unique provenance id in its ID field; id 0
// is reserved and means "nobody supplied this" (a fabricated zero value).
// ---------------------------------------------------------------------------

type T0 struct{ ID int64 }
type T1 struct{ ID int64 }
type T2 struct{ ID int64 }
type T3 struct{ ID int64 }
type T4 struct{ ID int64 }
type T5 struct{ ID int64 }

type I0 interface{ I0tok() int64 }
type I1 interface{ I1tok() int64 }

// I2 is narrower than both I0 and I1 (every I2 value implements them; only T1
// implements I2): interface-to-interface "implements" relations exist too.
type I2 interface {
	I0tok() int64
	I1tok() int64
}

func (t T0) I0tok() int64 { return t.ID }
func (t T1) I0tok() int64 { return t.ID }
func (t T1) I1tok() int64 { return t.ID }
func (t T2) I1tok() int64 { return t.ID }

var types = []reflect.Type{
	reflect.TypeOf(T0{}), reflect.TypeOf(T1{}), reflect.TypeOf(T2{}),
	reflect.TypeOf(T3{}), reflect.TypeOf(T4{}), reflect.TypeOf(T5{}),
	reflect.TypeOf((*I0)(nil)).Elem(), reflect.TypeOf((*I1)(nil)).Elem(), reflect.TypeOf((*I2)(nil)).Elem(),
}

const nConcrete = 6

// nTypes is the size of the core universe (T0..T5, I0..I2). The types behind
// it in `types` are the exotic ones (see below); generators only ever reach
// them through exoticize.
const nTypes = 9
const (
	tI0 = 6
	tI1 = 7
	tI2 = 8
)

// randIface picks an interface type (the narrow I2 less often).
func randIface(r *rand.Rand) int {
	if r.Intn(5) == 0 {
		return tI2
	}
	return nConcrete + r.Intn(2)
}

var errT = reflect.TypeOf((*error)(nil)).Elem()
var structMarkerT = reflect.TypeOf(am.Struct{})

func isIface(t int) bool { return t >= nConcrete && t < nTypes }

// Exotic types: unnamed composite types, a defined type with the same
// underlying type as an unnamed one (mutually assignable in Go, yet distinct
// types for the matching rules), function and channel types. None of them
// implements an interface of the universe, so a scenario whose types T3..T5
// are replaced by exotic ones has exactly the same model.
type XNames []int64
type XCfg struct{ ID int64 }
type XFn func() int64

var exoticTypes = []reflect.Type{
	reflect.TypeOf([]int64(nil)),          // 9  unnamed slice
	reflect.TypeOf(XNames(nil)),           // 10 defined slice, assignable to/from 9
	reflect.TypeOf((*XCfg)(nil)),          // 11 unnamed pointer
	reflect.TypeOf(map[string]int64(nil)), // 12 unnamed map
	reflect.TypeOf((func() int64)(nil)),   // 13 unnamed func
	reflect.TypeOf(XFn(nil)),              // 14 defined func, assignable to/from 13
	reflect.TypeOf((chan int64)(nil)),     // 15 bidirectional channel
	reflect.TypeOf((<-chan int64)(nil)),   // 16 receive-only channel (15 is assignable to it)
	reflect.TypeOf([2]int64{}),            // 17 unnamed array
}

func init() { types = append(types, exoticTypes...) }

// usesExotic reports whether any label of s has an exotic type.
func usesExotic(s Scenario) bool {
	any := func(ls []Label) bool {
		for _, l := range ls {
			if l.Type >= nTypes {
				return true
			}
		}
		return false
	}
	if any(s.Inputs) || any(s.Target.In) || any(s.Target.Out) {
		return true
	}
	for _, c := range s.Convs {
		if any(c.In) || any(c.Out) {
			return true
		}
	}
	return false
}

// chanIDs maps channel pointers to provenance ids (a channel cannot carry its
// id in a readable field).
var chanIDs sync.Map

// exoticize replaces the concrete types T3, T4, T5 of a scenario by three
// distinct exotic types.
func exoticize(s Scenario, r *rand.Rand) Scenario {
	perm := r.Perm(len(exoticTypes))
	if r.Intn(2) == 0 {
		// two of the three are a pair that Go considers assignable
		pair := [][2]int{{0, 1}, {4, 5}, {6, 7}}[r.Intn(3)]
		third := perm[0]
		for third == pair[0] || third == pair[1] {
			third = (third + 1) % len(exoticTypes)
		}
		perm = []int{pair[0], pair[1], third}
		r.Shuffle(3, func(i, j int) { perm[i], perm[j] = perm[j], perm[i] })
	}
	m := map[int]int{3: nTypes + perm[0], 4: nTypes + perm[1], 5: nTypes + perm[2]}
	ml := func(ls []Label) []Label {
		out := make([]Label, len(ls))
		for i, l := range ls {
			if t, ok := m[l.Type]; ok {
				l.Type = t
			}
			out[i] = l
		}
		return out
	}
	t := s
	t.Inputs = ml(s.Inputs)
	t.Target.In, t.Target.Out = ml(s.Target.In), ml(s.Target.Out)
	t.Convs = make([]FuncSpec, len(s.Convs))
	for i, c := range s.Convs {
		c.In, c.Out = ml(c.In), ml(c.Out)
		if g, ok := m[c.GenTrig]; ok {
			c.GenTrig = g
		}
		t.Convs[i] = c
	}
	return t
}

func implements(src, dst int) bool {
	return isIface(dst) && src != dst && types[src].Implements(types[dst])
}

func typeIndex(t reflect.Type) int {
	for i, x := range types {
		if x == t {
			return i
		}
	}
	return -1
}

func typeName(t int) string {
	if t < 0 || t >= len(types) {
		return fmt.Sprintf("?%d", t)
	}
	if t >= nTypes {
		return fmt.Sprintf("X%d", t-nTypes)
	}
	return types[t].Name()
}

// mk makes a value of concrete type t carrying id.
func mk(t int, id int64) reflect.Value {
	if t >= nTypes {
		return mkExotic(t, id)
	}
	v := reflect.New(types[t]).Elem()
	v.Field(0).SetInt(id)
	return v
}

// mkAs makes a value of concrete type conc, wrapped as declared type decl
// (which may be an interface type).
func mkAs(decl, conc int, id int64) reflect.Value {
	v := mk(conc, id)
	if isIface(decl) {
		iv := reflect.New(types[decl]).Elem()
		iv.Set(v)
		return iv
	}
	return v
}

// idOf extracts (id, concrete type index) from a possibly interface-typed
// value. (-1,-1): invalid reflect.Value; (0,-1): nil interface; (-2,-1): a
// type outside the universe.
func idOf(v reflect.Value) (int64, int) {
	if !v.IsValid() {
		return -1, -1
	}
	for v.Kind() == reflect.Interface {
		if v.IsNil() {
			return 0, -1
		}
		v = v.Elem()
	}
	for i := 0; i < nConcrete; i++ {
		if v.Type() == types[i] {
			return v.Field(0).Int(), i
		}
	}
	for i := nTypes; i < len(types); i++ {
		if v.Type() == types[i] {
			return idOfExotic(v), i
		}
	}
	return -2, -1
}

// mkExotic makes a value of exotic type t carrying id (id 0: the zero value).
func mkExotic(t int, id int64) reflect.Value {
	typ := types[t]
	if id == 0 {
		return reflect.Zero(typ)
	}
	switch typ.Kind() {
	case reflect.Slice:
		v := reflect.MakeSlice(typ, 1, 1)
		v.Index(0).SetInt(id)
		return v
	case reflect.Ptr:
		return reflect.ValueOf(&XCfg{ID: id})
	case reflect.Map:
		return reflect.ValueOf(map[string]int64{"id": id})
	case reflect.Func:
		f := func() int64 { return id }
		return reflect.ValueOf(f).Convert(typ)
	case reflect.Chan:
		c := make(chan int64)
		chanIDs.Store(reflect.ValueOf(c).Pointer(), id)
		return reflect.ValueOf(c).Convert(typ)
	case reflect.Array:
		v := reflect.New(typ).Elem()
		v.Index(0).SetInt(id)
		return v
	}
	panic("mkExotic: " + typ.String())
}

func idOfExotic(v reflect.Value) int64 {
	switch v.Kind() {
	case reflect.Slice:
		if v.Len() == 0 {
			return 0
		}
		return v.Index(0).Int()
	case reflect.Ptr:
		if v.IsNil() {
			return 0
		}
		return v.Elem().Field(0).Int()
	case reflect.Map:
		if v.IsNil() {
			return 0
		}
		return v.MapIndex(reflect.ValueOf("id")).Int()
	case reflect.Func:
		if v.IsNil() {
			return 0
		}
		return v.Call(nil)[0].Int()
	case reflect.Chan:
		if v.IsNil() {
			return 0
		}
		if id, ok := chanIDs.Load(v.Pointer()); ok {
			return id.(int64)
		}
		return -3
	case reflect.Array:
		return v.Index(0).Int()
	}
	return -2
}

func idOfIface(x interface{}) (int64, int) {
	if x == nil {
		return 0, -1
	}
	return idOf(reflect.ValueOf(x))
}

// concreteFor picks a concrete type to return for declared type t.
func concreteFor(t int, r *rand.Rand) int {
	if !isIface(t) {
		return t
	}
	var c []int
	for i := 0; i < nConcrete; i++ {
		if implements(i, t) {
			c = append(c, i)
		}
	}
	return c[r.Intn(len(c))]
}

// ---------------------------------------------------------------------------
// Specs
// ---------------------------------------------------------------------------

// Label is (name, type, subtype); Name == "" means type-only.
type Label struct {
	Name string `json:"n,omitempty"`
	Type int    `json:"t"`
	Sub  string `json:"s,omitempty"`
}

func (l Label) String() string {
	s := ""
	if l.Name != "" {
		s = l.Name + ":"
	}
	s += typeName(l.Type)
	if l.Sub != "" {
		s += "/" + l.Sub
	}
	return s
}

func labelsStr(ls []Label) string {
	var p []string
	for _, l := range ls {
		p = append(p, l.String())
	}
	return "[" + strings.Join(p, " ") + "]"
}

const (
	FormPos    = 0 // positional parameters / results (type-only, no subtype)
	FormStruct = 1 // struct embedding argmapper.Struct
	FormPtr    = 2 // pointer to such a struct
	FormBuilt  = 3 // NewValueSet + BuildFunc (applies to both sides)
)

const (
	DelFunc = 0 // ConverterFunc(*Func)
	DelRaw  = 1 // Converter(raw function value)
	DelGen  = 2 // ConverterGen returning the *Func when shown a value of type GenTrig
)

var formNames = []string{"pos", "struct", "ptr", "built"}
var delNames = []string{"func", "raw", "gen"}

// FuncSpec describes a generated function (target or converter).
type FuncSpec struct {
	In      []Label `json:"in"`
	Out     []Label `json:"out"`
	InForm  int     `json:"inform"`
	OutForm int     `json:"outform"`
	HasErr  bool    `json:"haserr,omitempty"`
	Fail    bool    `json:"fail,omitempty"`
	Once    bool    `json:"once,omitempty"`
	Deliver int     `json:"deliver,omitempty"`
	GenTrig int     `json:"gentrig,omitempty"`
	// GenName, when set, makes the generator hand the function out only for
	// a value of the trigger type that also carries this name.
	GenName string `json:"genname,omitempty"`
	// CaseMix re-cases the names used in struct tags (argmapper must treat
	// names case-insensitively).
	CaseMix bool `json:"casemix,omitempty"`
}

func (f FuncSpec) String() string {
	s := fmt.Sprintf("%s%s->%s%s", formNames[f.InForm], labelsStr(f.In), formNames[f.OutForm], labelsStr(f.Out))
	if f.HasErr {
		s += " err"
	}
	if f.Fail {
		s += " FAIL"
	}
	if f.Once {
		s += " once"
	}
	if f.Deliver != DelFunc {
		s += " via-" + delNames[f.Deliver]
	}
	return s
}

// Scenario is one generated case: inputs, converters, target.
type Scenario struct {
	Inputs []Label    `json:"inputs"`
	Convs  []FuncSpec `json:"convs"`
	Target FuncSpec   `json:"target"`
	// AllowDup lets two converters share a Go function type (the resolver
	// then only sees the first; both are still "supplied converters").
	AllowDup bool `json:"allowdup,omitempty"`
}

func (s Scenario) String() string {
	var b strings.Builder
	fmt.Fprintf(&b, "inputs=%s", labelsStr(s.Inputs))
	for i, c := range s.Convs {
		fmt.Fprintf(&b, " | c%d %v", i, c)
	}
	fmt.Fprintf(&b, " | target %v", s.Target)
	return b.String()
}

// Key is a canonical string used to count distinct cases.
func (s Scenario) Key() string { return s.String() }

// ---------------------------------------------------------------------------
// Runtime world: provenance table + boundary event log
// ---------------------------------------------------------------------------

const (
	OInput = 0
	OConv  = 1
)

// Origin records where a provenance id came from.
type Origin struct {
	Kind   int
	Call   int // owning call for inputs (-1: shared constant)
	Func   int // producing function for OConv (-1 target)
	Exec   int
	OutIdx int
	Label  Label   // declared label of the source
	From   []int64 // ids of the arguments the producing execution received
	Seq    int     // event sequence number of the producing execution
}

// ArgObs is what a generated body saw for one declared parameter.
type ArgObs struct {
	Param Label
	ID    int64
	Conc  int
}

// Event is one execution of a generated body.
type Event struct {
	Seq  int
	Func int // -1 target, >= 0 converter index, <= -2 auxiliary functions
	Exec int
	Args []ArgObs
	Outs []int64
	Err  error
	// EnterNs/ExitNs: monotonic timestamps of body entry and exit
	EnterNs, ExitNs int64
}

func (e *Event) String() string {
	var a []string
	for _, x := range e.Args {
		a = append(a, fmt.Sprintf("%s<=#%d", x.Param, x.ID))
	}
	s := fmt.Sprintf("f%d.%d(%s)->%v", e.Func, e.Exec, strings.Join(a, ","), e.Outs)
	if e.Err != nil {
		s += " ERR"
	}
	return s
}

type failErr struct {
	Func, Exec int
}

type zeroStructErr struct{}

func (zeroStructErr) Error() string { return "generated failure (stateless sentinel)" }

type zeroCodeErr int

func (e zeroCodeErr) Error() string { return fmt.Sprintf("generated failure code %d", int(e)) }

type nilPtrErr struct{ x int }

func (e *nilPtrErr) Error() string { return "generated failure (typed nil pointer)" }

type zeroStringErr string

func (e zeroStringErr) Error() string { return "generated failure (empty string type)" }

func (e *failErr) Error() string { return fmt.Sprintf("generated failure f%d.%d", e.Func, e.Exec) }

// sliceErr is an error type that is not comparable (validator-style list of
// messages): `err1 == err2` on two of them panics, so a library that compares
// error values would turn a converter failure into a panic.
type sliceErr []string

func (e sliceErr) Error() string { return "generated failure (list): " + strings.Join(e, "; ") }

// errKey returns a comparable identity for an error value: the value itself
// when its dynamic type is comparable, the backing array and length for a
// slice-typed one.
func errKey(err error) interface{} {
	if err == nil {
		return nil
	}
	if reflect.TypeOf(err).Comparable() {
		return err
	}
	v := reflect.ValueOf(err)
	if v.Kind() == reflect.Slice {
		return [2]uintptr{v.Pointer(), uintptr(v.Len())}
	}
	return fmt.Sprintf("%T:%p", err, err)
}

// sameErr: a and b are the very same error value.
func sameErr(a, b error) bool { return errKey(a) == errKey(b) }

// World holds the monitoring state shared by all generated bodies.
type World struct {
	mu      sync.Mutex
	nextID  int64
	origin  map[int64]*Origin
	events  []*Event
	execs   map[int]int
	specs   map[int]FuncSpec
	errs    map[interface{}]int // error values (by errKey) returned by bodies -> event seq
	planned bool          // set while a Redefine is in progress (C09)
	inPlan  []int         // events logged while planned (must stay empty)
	t0      time.Time
	// zeroOrigin, when set, is the supplied value that legitimately carries
	// id 0 (a caller may supply the zero value of a type). Without it id 0
	// means "fabricated".
	zeroOrigin *Origin
	// FailOn, when set, decides per execution whether an error-declaring
	// body fails (it receives the spec's static Fail flag); used for
	// histories in which a function fails in one call and succeeds in another.
	FailOn func(fi, exec int, specFail bool) bool
	// UnsatErrors makes failing bodies return a (fresh) *ErrArgumentUnsatisfied
	// obtained from an inner, unsatisfiable call instead of a *failErr.
	UnsatErrors bool
	// ZeroErrors (1..4) makes failing bodies return a non-nil error whose
	// (5, 6: a *multierror.Error with one / two elements, which must come back
	// as the very value it is)
	// dynamic value is the zero value of its type: a stateless sentinel
	// struct, an integer code 0, a typed nil pointer, an empty string type.
	ZeroErrors int
	// NextDefaults, when non-nil, is passed as is (same backing array) as the
	// default options of the next function built.
	NextDefaults []am.Arg
	// Delay, when set (before any goroutine uses the world), is called at
	// body entry to widen the window between entry and exit.
	Delay func(fi int)
	// TraceLog makes DoCall, DoConvert and DoRedefine pass a trace-level
	// logger (writing to nowhere), which makes the library render its graphs
	// and values as text; nothing else about the operation may change.
	TraceLog bool
	// ShareName, when set, is given to every function built as its FuncName.
	ShareName string
}

// caseTrace is set by the runner for a fixed, index-determined subset of the
// cases: every world made in such a case logs at trace level.
var caseTrace bool

// caseShareName, set the same way: every function built in a world of such a
// case carries ONE display name (FuncName, e.g. what NewFuncList(fs,
// FuncName("conv")) produces). A name identifies nothing.
var caseShareName bool

// caseOneGen, set the same way: all generated converters of a world come out
// of one generator function.
var caseOneGen bool

var traceLogger = hclog.New(&hclog.LoggerOptions{Level: hclog.Trace, Output: io.Discard})

func NewWorld() *World {
	w := &World{origin: map[int64]*Origin{}, execs: map[int]int{}, specs: map[int]FuncSpec{}, errs: map[interface{}]int{}, t0: time.Now(), TraceLog: caseTrace}
	if caseShareName {
		w.ShareName = "conv"
	}
	return w
}

// withTrace adds the trace logger to the options of an operation in a world
// that asks for it.
func withTrace(w *World, args []am.Arg) []am.Arg {
	if w == nil || !w.TraceLog {
		return args
	}
	return append([]am.Arg{am.Logger(traceLogger)}, args...)
}

// Now is the world's monotonic clock in nanoseconds.
func (w *World) Now() int64 { return int64(time.Since(w.t0)) }

func (w *World) enter(fi int) int64 {
	t := w.Now()
	if d := w.Delay; d != nil {
		d(fi)
	}
	return t
}

func (w *World) freshLocked(o *Origin) int64 {
	w.nextID++
	w.origin[w.nextID] = o
	return w.nextID
}

// FreshInput registers a caller-supplied value and returns its id.
func (w *World) FreshInput(call, idx int, l Label) int64 {
	w.mu.Lock()
	defer w.mu.Unlock()
	return w.freshLocked(&Origin{Kind: OInput, Call: call, Func: idx, Label: l, Seq: -1})
}

func (w *World) Origin(id int64) *Origin {
	w.mu.Lock()
	defer w.mu.Unlock()
	if id == 0 {
		return w.zeroOrigin
	}
	return w.origin[id]
}

// SetZeroInput declares that input idx (label l) is supplied as the zero
// value of its type, i.e. with id 0.
func (w *World) SetZeroInput(idx int, l Label) {
	w.mu.Lock()
	w.zeroOrigin = &Origin{Kind: OInput, Call: -1, Func: idx, Label: l, Seq: -1}
	w.mu.Unlock()
}

func (w *World) NumEvents() int {
	w.mu.Lock()
	defer w.mu.Unlock()
	return len(w.events)
}

// EventsFrom returns a copy of the log from position n.
func (w *World) EventsFrom(n int) []*Event {
	w.mu.Lock()
	defer w.mu.Unlock()
	out := make([]*Event, len(w.events)-n)
	copy(out, w.events[n:])
	return out
}

func (w *World) Execs(fi int) int {
	w.mu.Lock()
	defer w.mu.Unlock()
	return w.execs[fi]
}

func (w *World) SetPlanning(b bool) {
	w.mu.Lock()
	w.planned = b
	w.mu.Unlock()
}

func (w *World) PlanEvents() int {
	w.mu.Lock()
	defer w.mu.Unlock()
	return len(w.inPlan)
}

// IsBodyError reports whether err is (identically) an error value returned by
// some generated body.
func (w *World) IsBodyError(err error) bool {
	w.mu.Lock()
	defer w.mu.Unlock()
	_, ok := w.errs[errKey(err)]
	return ok
}

// record logs one execution; args are what the body observed. It returns the
// fresh output values and the error to return (nil if none).
func (w *World) record(fi int, spec *FuncSpec, obs []ArgObs, concs []int, enterNs int64) ([]reflect.Value, error) {
	w.mu.Lock()
	defer w.mu.Unlock()
	ev := &Event{Seq: len(w.events), Func: fi, Exec: w.execs[fi], Args: obs, EnterNs: enterNs}
	defer func() { ev.ExitNs = w.Now() }()
	w.execs[fi]++
	from := make([]int64, len(obs))
	for i, a := range obs {
		from[i] = a.ID
	}
	outs := make([]reflect.Value, len(spec.Out))
	for i, l := range spec.Out {
		id := w.freshLocked(&Origin{Kind: OConv, Call: -2, Func: fi, Exec: ev.Exec, OutIdx: i, Label: l, From: from, Seq: ev.Seq})
		ev.Outs = append(ev.Outs, id)
		outs[i] = mkAs(l.Type, concs[i], id)
	}
	var err error
	if (spec.Fail && w.FailOn == nil) || (w.FailOn != nil && spec.HasErr && w.FailOn(fi, ev.Exec, spec.Fail)) {
		err = &failErr{fi, ev.Exec}
		switch w.ZeroErrors {
		case 1:
			err = zeroStructErr{}
		case 2:
			err = zeroCodeErr(0)
		case 3:
			err = (*nilPtrErr)(nil)
		case 4:
			err = zeroStringErr("")
		case 5:
			// an error value that is itself a one-element error list
			err = &multierror.Error{Errors: []error{fmt.Errorf("generated failure f%d.%d (only element of a list)", fi, ev.Exec)}}
		case 6:
			err = &multierror.Error{Errors: []error{fmt.Errorf("first of two"), fmt.Errorf("second of two")}}
		case 7:
			// an error value of a type that is not comparable
			err = sliceErr{fmt.Sprintf("f%d.%d", fi, ev.Exec), "field x: required"}
		}
		if w.UnsatErrors {
			// a body that uses argmapper itself and hands on the error of an
			// inner call: the value is an *ErrArgumentUnsatisfied
			err = innerUnsatError()
		}
		w.errs[errKey(err)] = ev.Seq
		ev.Err = err
	}
	w.events = append(w.events, ev)
	if w.planned {
		w.inPlan = append(w.inPlan, ev.Seq)
	}
	return outs, err
}

// ---------------------------------------------------------------------------
// Building functions from specs
// ---------------------------------------------------------------------------

func mixCase(s string, r *rand.Rand) string {
	b := []byte(s)
	for i := range b {
		if b[i] >= 'a' && b[i] <= 'z' && r.Intn(2) == 0 {
			b[i] -= 32
		}
	}
	return string(b)
}

// structType builds a marker struct for the labels. Field i+1 belongs to
// label i. tag makes the struct type unique per function so that two
// generated functions never share a Go type by accident.
func structType(ls []Label, ptr bool, tag string, r *rand.Rand, caseMix bool) reflect.Type {
	sf := []reflect.StructField{{Name: "Struct", Type: structMarkerT, Anonymous: true}}
	for i, l := range ls {
		var tags []string
		if l.Name != "" {
			n := l.Name
			if caseMix && r != nil {
				n = mixCase(n, r)
			}
			if first, size := utf8.DecodeRuneInString(n); first >= utf8.RuneSelf && unicode.IsLower(first) && unicode.ToLower(unicode.ToUpper(first)) == first && strings.ToLower(string(unicode.ToUpper(first))) == string(first) {
				// a name starting with a non-ASCII letter is spelled with
				// that letter in upper case on the struct side
				n = string(unicode.ToUpper(first)) + n[size:]
			}
			tags = append(tags, n)
		} else {
			tags = append(tags, "", "typeOnly")
		}
		if l.Sub != "" {
			tags = append(tags, "subtype="+l.Sub)
			if len(tags) == 3 && i%2 == 1 {
				// the options of a tag come in any order
				tags[1], tags[2] = tags[2], tags[1]
			}
		}
		fname := fmt.Sprintf("F%s_%d", tag, i)
		if i > 0 && l.Name == "" && r != nil && r.Intn(2) == 0 {
			// the Go name of a type-only field means nothing (the tag empties
			// it): call it like one of the value names of the generators
			cand := string(rune('A' + r.Intn(5)))
			taken := false
			for _, f := range sf {
				if f.Name == cand {
					taken = true
				}
			}
			if !taken {
				fname = cand
			}
		}
		sf = append(sf, reflect.StructField{
			Name: fname,
			Type: types[l.Type],
			Tag:  reflect.StructTag(fmt.Sprintf(`argmapper:"%s"`, strings.Join(tags, ","))),
		})
	}
	t := reflect.StructOf(sf)
	if ptr {
		t = reflect.PtrTo(t)
	}
	return t
}

func labelsToValues(ls []Label, r *rand.Rand, caseMix bool) []am.Value {
	vs := make([]am.Value, len(ls))
	for i, l := range ls {
		n := l.Name
		if caseMix && r != nil {
			n = mixCase(n, r)
		}
		vs[i] = am.Value{Name: n, Type: types[l.Type], Subtype: l.Sub}
	}
	return vs
}

// Built is a generated function together with what the harness knows about it.
type Built struct {
	Idx  int
	Spec FuncSpec
	Func *am.Func
	Raw  interface{} // the raw Go function value (nil for built functions)
	Type reflect.Type
}

// Build creates the function described by spec. Its body records an event and
// returns fresh provenance ids.
func (w *World) Build(fi int, spec FuncSpec, r *rand.Rand, extra ...am.Arg) (*Built, error) {
	w.mu.Lock()
	w.specs[fi] = spec
	w.mu.Unlock()

	concs := make([]int, len(spec.Out))
	for i, l := range spec.Out {
		concs[i] = concreteFor(l.Type, r)
	}
	// default options are handed to NewFunc as a slice with spare capacity:
	// the library must never write into it
	opts := make([]am.Arg, 0, 9+len(extra))
	if w.ShareName != "" {
		opts = append(opts, am.FuncName(w.ShareName))
	}
	if spec.Once {
		opts = append(opts, am.FuncOnce())
		if r != nil && r.Intn(3) == 0 {
			// options that have nothing to do with each other, in this order
			opts = append(opts, am.FuncName(fmt.Sprintf("once-f%d", fi)))
		}
	}
	opts = append(opts, extra...)
	if w.NextDefaults != nil {
		// the caller wants exactly this slice (which it may share with other
		// functions) to be passed as the variadic default options
		opts = w.NextDefaults
		w.NextDefaults = nil
	}
	tag := fmt.Sprintf("c%d", fi)
	if fi < 0 {
		tag = fmt.Sprintf("m%d", -fi)
	}

	if spec.InForm == FormBuilt || spec.OutForm == FormBuilt {
		inSet, err := am.NewValueSet(labelsToValues(spec.In, r, spec.CaseMix))
		if err != nil {
			return nil, err
		}
		outSet, err := am.NewValueSet(labelsToValues(spec.Out, r, spec.CaseMix))
		if err != nil {
			return nil, err
		}
		// BuildFunc documents nil as "no values": use it for empty lists
		// half of the time
		if len(spec.In) == 0 && r.Intn(2) == 0 {
			inSet = nil
		}
		if len(spec.Out) == 0 && r.Intn(2) == 0 {
			outSet = nil
		}
		sp := spec
		cb := func(in, out *am.ValueSet) error {
			enterNs := w.enter(fi)
			var vals []am.Value
			if in != nil {
				vals = in.Values()
			}
			obs := make([]ArgObs, len(sp.In))
			for i, l := range sp.In {
				if i < len(vals) {
					id, c := idOf(vals[i].Value)
					obs[i] = ArgObs{l, id, c}
				} else {
					obs[i] = ArgObs{l, -1, -1}
				}
			}
			outs, ferr := w.record(fi, &sp, obs, concs, enterNs)
			for i, l := range sp.Out {
				var v *am.Value
				if l.Name != "" {
					v = out.Named(l.Name)
				} else {
					v = out.Typed(types[l.Type])
				}
				if v == nil {
					return fmt.Errorf("harness: output %v not found in built output set", l)
				}
				v.Value = outs[i]
			}
			if ferr != nil {
				return ferr
			}
			return nil
		}
		f, err := am.BuildFunc(inSet, outSet, cb, opts...)
		if err != nil {
			return nil, err
		}
		return &Built{Idx: fi, Spec: spec, Func: f, Type: reflect.TypeOf(f.Func())}, nil
	}

	var inT, outT []reflect.Type
	switch spec.InForm {
	case FormPos:
		for _, l := range spec.In {
			inT = append(inT, types[l.Type])
		}
	case FormStruct, FormPtr:
		inT = []reflect.Type{structType(spec.In, spec.InForm == FormPtr, tag+"i", r, spec.CaseMix)}
	}
	switch spec.OutForm {
	case FormPos:
		for _, l := range spec.Out {
			outT = append(outT, types[l.Type])
		}
	case FormStruct, FormPtr:
		outT = []reflect.Type{structType(spec.Out, spec.OutForm == FormPtr, tag+"o", r, spec.CaseMix)}
	}
	if spec.HasErr {
		outT = append(outT, errT)
	}
	ft := reflect.FuncOf(inT, outT, false)
	sp := spec
	fn := reflect.MakeFunc(ft, func(args []reflect.Value) []reflect.Value {
		enterNs := w.enter(fi)
		obs := make([]ArgObs, len(sp.In))
		switch sp.InForm {
		case FormPos:
			for i, l := range sp.In {
				id, c := idOf(args[i])
				obs[i] = ArgObs{l, id, c}
			}
		default:
			sv := args[0]
			if sp.InForm == FormPtr {
				if sv.IsNil() {
					for i, l := range sp.In {
						obs[i] = ArgObs{l, -1, -1}
					}
					sv = reflect.Value{}
				} else {
					sv = sv.Elem()
				}
			}
			if sv.IsValid() {
				for i, l := range sp.In {
					id, c := idOf(sv.Field(i + 1))
					obs[i] = ArgObs{l, id, c}
				}
			}
		}
		outs, ferr := w.record(fi, &sp, obs, concs, enterNs)
		var res []reflect.Value
		switch sp.OutForm {
		case FormPos:
			res = outs
		default:
			st := outT[0]
			if sp.OutForm == FormPtr {
				st = st.Elem()
			}
			svp := reflect.New(st)
			for i := range sp.Out {
				svp.Elem().Field(i + 1).Set(outs[i])
			}
			if sp.OutForm == FormPtr {
				res = []reflect.Value{svp}
				if ferr != nil && sp.HasErr && fi%2 == 0 {
					// the usual way to fail: return nil, err
					res = []reflect.Value{reflect.Zero(outT[0])}
				}
			} else {
				res = []reflect.Value{svp.Elem()}
			}
		}
		if sp.HasErr {
			if ferr != nil {
				ev := reflect.New(errT).Elem()
				ev.Set(reflect.ValueOf(ferr))
				res = append(res, ev)
			} else {
				res = append(res, reflect.Zero(errT))
			}
		}
		return res
	})
	raw := fn.Interface()
	var f *am.Func
	var err error
	if r.Intn(5) == 0 {
		// the list constructor is documented to be NewFunc for each element
		var fl []*am.Func
		fl, err = am.NewFuncList([]interface{}{raw}, opts...)
		if err == nil {
			f = fl[0]
		}
	} else {
		f, err = am.NewFunc(raw, opts...)
	}
	if err != nil {
		return nil, err
	}
	return &Built{Idx: fi, Spec: spec, Func: f, Raw: raw, Type: ft}, nil
}

// ---------------------------------------------------------------------------
// Instantiating a scenario
// ---------------------------------------------------------------------------

// Inst is a scenario made real in a fresh world.
type Inst struct {
	W      *World
	S      Scenario
	Target *Built
	Convs  []*Built
	// ConvArgs are the options carrying the converters (shared by calls).
	ConvArgs []am.Arg
	// InputIDs of the most recent InputArgs call; LastCall is its call number.
	InputIDs []int64
	LastCall int
	// ZeroInput1, when > 0, makes input ZeroInput1-1 the zero value of its
	// type (id 0) in every InputArgs call.
	ZeroInput1 int
	// ViaSet supplies the inputs through ValueSet.Args() of a value set built
	// with NewValueSet and filled with FromSignature (falls back to the plain
	// options when the inputs cannot form a set).
	ViaSet     bool
	ViaSetUsed int
	// MixCase spells the names of the supplied values with random casing
	// (names are matched case-insensitively).
	MixCase *rand.Rand
	// GroupTyped supplies all type-only inputs without subtype through ONE
	// Typed(a, nil, b, ...) option with nil values in between (nil values
	// must simply be ignored).
	GroupTyped bool
	// StaleUpper supplies, BEFORE everything else, one more value for every
	// named input under the same name spelled in upper case (id -6): the
	// later, real value overrides it, so it must not show up anywhere.
	StaleUpper bool
}

var errDupType = errors.New("two generated functions share a Go type")

// Instantiate builds all functions of s in a fresh world.
func Instantiate(s Scenario, r *rand.Rand, targetDefaults ...am.Arg) (*Inst, error) {
	return InstantiateIn(NewWorld(), s, r, targetDefaults...)
}

// InstantiateIn builds all functions of s in the given world.
func InstantiateIn(w *World, s Scenario, r *rand.Rand, targetDefaults ...am.Arg) (*Inst, error) {
	in := &Inst{W: w, S: s}
	var gens []am.ConverterGenFunc
	var genTrigs []int
	seen := map[reflect.Type]bool{}
	t, err := w.Build(-1, s.Target, r, targetDefaults...)
	if err != nil {
		return nil, fmt.Errorf("target: %w", err)
	}
	in.Target = t
	seen[t.Type] = true
	for i, c := range s.Convs {
		b, err := w.Build(i, c, r)
		if err != nil {
			return nil, fmt.Errorf("conv %d: %w", i, err)
		}
		if seen[b.Type] && !s.AllowDup {
			return nil, errDupType
		}
		seen[b.Type] = true
		in.Convs = append(in.Convs, b)
		deliver := c.Deliver
		if c.Once && deliver == DelRaw {
			// Converter(raw) wraps the raw function in a fresh Func on every
			// application, which cannot carry the run-once option
			deliver = DelFunc
		}
		switch deliver {
		case DelRaw:
			if b.Raw == nil {
				in.ConvArgs = append(in.ConvArgs, am.ConverterFunc(b.Func))
			} else {
				in.ConvArgs = append(in.ConvArgs, am.Converter(b.Raw))
			}
		case DelGen:
			f := b.Func
			trig := types[c.GenTrig]
			gname := c.GenName
			genTrigs = append(genTrigs, c.GenTrig)
			gens = append(gens, func(v am.Value) (*am.Func, error) {
				if v.Type == trig && (gname == "" || v.Name == gname) {
					return f, nil
				}
				return nil, nil
			})
		default:
			in.ConvArgs = append(in.ConvArgs, am.ConverterFunc(b.Func))
		}
	}
	// one case in seven: ONE generator function manufactures all generated
	// converters of the case (it looks at the value it is shown and hands out
	// the converter for that type) -- possible when their trigger types differ
	if caseOneGen && len(gens) > 1 {
		distinct := map[int]bool{}
		for _, t := range genTrigs {
			distinct[t] = true
		}
		if len(distinct) == len(gens) {
			all := gens
			gens = []am.ConverterGenFunc{func(v am.Value) (*am.Func, error) {
				for _, g := range all {
					if f, err := g(v); f != nil || err != nil {
						return f, err
					}
				}
				return nil, nil
			}}
		}
	}
	// several generators travel in ONE ConverterGen(g1, g2, ...) option half
	// of the time, else in one option each
	if len(gens) > 1 && r != nil && r.Intn(2) == 0 {
		in.ConvArgs = append(in.ConvArgs, am.ConverterGen(gens...))
	} else {
		for _, g := range gens {
			in.ConvArgs = append(in.ConvArgs, am.ConverterGen(g))
		}
	}
	return in, nil
}

// InputArg makes the option for one supplied value.
func InputArg(l Label, id int64) am.Arg {
	v := mk(l.Type, id).Interface()
	// the same value can be spelled through several constructors (an empty
	// name means type-only, an empty subtype means none): vary the spelling
	// with the id
	switch {
	case l.Name == "" && l.Sub == "" && id%3 == 0:
		return am.Named("", v)
	case l.Name == "" && l.Sub == "" && id%3 == 1:
		return am.Typed(v)
	case l.Name == "" && l.Sub != "" && id%2 == 0:
		return am.TypedSubtype(v, l.Sub)
	case l.Name != "" && l.Sub == "" && id%2 == 0:
		return am.Named(l.Name, v)
	}
	return am.NamedSubtype(l.Name, v, l.Sub)
}

// InputArgs creates fresh ids for the scenario's inputs, owned by call.
func (in *Inst) InputArgs(call int) []am.Arg {
	args := make([]am.Arg, 0, len(in.S.Inputs))
	in.InputIDs = in.InputIDs[:0]
	in.LastCall = call
	var grouped []interface{}
	for i, l := range in.S.Inputs {
		var id int64
		if in.ZeroInput1 == i+1 {
			in.W.SetZeroInput(i, l)
		} else {
			id = in.W.FreshInput(call, i, l)
		}
		in.InputIDs = append(in.InputIDs, id)
		if in.GroupTyped && l.Name == "" && l.Sub == "" {
			if len(grouped) == 0 || call%2 == 0 {
				var e error // an untyped nil inside the list
				grouped = append(grouped, e)
			}
			grouped = append(grouped, mk(l.Type, id).Interface())
			continue
		}
		if in.MixCase != nil && l.Name != "" {
			args = append(args, am.NamedSubtype(mixCase(l.Name, in.MixCase), mk(l.Type, id).Interface(), l.Sub))
			continue
		}
		args = append(args, InputArg(l, id))
	}
	if len(grouped) > 0 {
		args = append(args, am.Typed(grouped...))
	}
	if in.ViaSet && len(grouped) == 0 && len(in.S.Inputs) > 0 {
		if viaSet := argsViaValueSet(in.S.Inputs, in.InputIDs); viaSet != nil {
			in.ViaSetUsed++
			return viaSet
		}
	}
	return args
}

// argsViaValueSet hands the inputs over the way a caller forwarding a value
// set does: NewValueSet, FromSignature, Args().
func argsViaValueSet(ls []Label, ids []int64) (out []am.Arg) {
	defer func() {
		if recover() != nil {
			out = nil
		}
	}()
	vals := labelsToValues(ls, nil, false)
	// a value may be DECLARED with an interface type its concrete type
	// implements (the output set of a function returning interfaces, filled
	// with FromResult): it is still handed on as the concrete value it holds
	for i, l := range ls {
		if l.Type < nConcrete && ids[i]%3 == 0 {
			for _, it := range []int{tI0, tI1, tI2} {
				if implements(l.Type, it) {
					vals[i].Type = types[it]
					break
				}
			}
		}
	}
	vs, err := am.NewValueSet(vals)
	if err != nil || vs == nil {
		return nil
	}
	sig := vs.Signature()
	if len(sig) != 1 || sig[0].Kind() != reflect.Struct || sig[0].NumField() != len(ls)+1 {
		return nil
	}
	sv := reflect.New(sig[0]).Elem()
	for i, l := range ls {
		sv.Field(i + 1).Set(mk(l.Type, ids[i]))
	}
	if err := vs.FromSignature([]reflect.Value{sv}); err != nil {
		return nil
	}
	return vs.Args()
}

// AllArgs = fresh inputs + converters, optionally shuffled.
func (in *Inst) AllArgs(call int, r *rand.Rand) []am.Arg {
	args := append(in.InputArgs(call), in.ConvArgs...)
	if r != nil {
		r.Shuffle(len(args), func(i, j int) { args[i], args[j] = args[j], args[i] })
	}
	if in.StaleUpper {
		var stale []am.Arg
		for _, l := range in.S.Inputs {
			if l.Name != "" {
				stale = append(stale, am.NamedSubtype(strings.ToUpper(l.Name), mk(l.Type, -6).Interface(), l.Sub))
			}
		}
		args = append(stale, args...)
	}
	return args
}

// ---------------------------------------------------------------------------
// Running the library with panic capture
// ---------------------------------------------------------------------------

const (
	ClsOK      = "ok"
	ClsUnsat   = "unsatisfied"
	ClsConvErr = "converter-error"
	ClsOther   = "other-error"
	ClsPanic   = "panic"
)

// Outcome of one API call.
type Outcome struct {
	Class  string
	Err    error
	Res    am.Result
	Panic  string
	Events []*Event
	Value  interface{} // Convert
	Func   *am.Func    // Redefine
	// Touched is non-empty when the library wrote into the caller's option
	// slice (the passed elements or the spare capacity behind them).
	Touched string
}

func classify(w *World, err error) string {
	if err == nil {
		return ClsOK
	}
	// an error value a generated body returned is a converter error, whatever
	// its dynamic type
	if w != nil && w.IsBodyError(err) {
		return ClsConvErr
	}
	var un *am.ErrArgumentUnsatisfied
	if errors.As(err, &un) {
		return ClsUnsat
	}
	return ClsOther
}

var innerUnsatFunc = am.MustFunc(am.NewFunc(func(struct{ private int }) {}))

// innerUnsatError returns a fresh *ErrArgumentUnsatisfied from a real,
// unsatisfiable inner call.
func innerUnsatError() error {
	r := innerUnsatFunc.Call()
	return r.Err()
}

func panicString(p interface{}) string {
	s := fmt.Sprint(p)
	if len(s) > 300 {
		s = s[:300]
	}
	return s
}

// DoCall runs f.Call(args...) capturing panics and the slice of the event log
// produced by it (only meaningful for sequential use of the world).
func DoCall(w *World, f *am.Func, args []am.Arg) (o Outcome) {
	n := 0
	if w != nil {
		n = w.NumEvents()
	}
	defer func() {
		if p := recover(); p != nil {
			o.Class = ClsPanic
			o.Panic = panicString(p)
		}
		if w != nil {
			o.Events = w.EventsFrom(n)
		}
	}()
	passed, check := withSpare(withTrace(w, args))
	defer func() { o.Touched = check() }()
	o.Res = f.Call(passed...)
	o.Err = o.Res.Err()
	o.Class = classify(w, o.Err)
	return
}

// withSpare copies args into a slice with spare capacity holding sentinels
// (what a caller passing all[:k]... hands over) and returns a check that the
// library wrote neither into the passed elements nor behind them.
func withSpare(args []am.Arg) ([]am.Arg, func() string) {
	n := len(args)
	full := make([]am.Arg, n+2)
	copy(full, args)
	full[n], full[n+1] = spareSentinel, spareSentinel
	ptr := func(a am.Arg) uintptr { return reflect.ValueOf(a).Pointer() }
	want := make([]uintptr, n+2)
	for i, a := range full {
		want[i] = ptr(a)
	}
	return full[: n : n+2], func() string {
		for i, a := range full {
			if ptr(a) != want[i] {
				if i >= n {
					return fmt.Sprintf("element %d behind the %d passed options was overwritten", i-n, n)
				}
				return fmt.Sprintf("passed option %d of %d was overwritten", i, n)
			}
		}
		return ""
	}
}

var spareSentinel = am.Named("verifsentinel", T5{ID: -9})

func DoConvert(w *World, t reflect.Type, args []am.Arg) (o Outcome) {
	n := 0
	if w != nil {
		n = w.NumEvents()
	}
	defer func() {
		if p := recover(); p != nil {
			o.Class = ClsPanic
			o.Panic = panicString(p)
		}
		if w != nil {
			o.Events = w.EventsFrom(n)
		}
	}()
	passed, check := withSpare(withTrace(w, args))
	defer func() { o.Touched = check() }()
	o.Value, o.Err = am.Convert(t, passed...)
	o.Class = classify(w, o.Err)
	return
}

func DoRedefine(w *World, f *am.Func, args []am.Arg) (o Outcome) {
	n := 0
	if w != nil {
		n = w.NumEvents()
		w.SetPlanning(true)
	}
	defer func() {
		if p := recover(); p != nil {
			o.Class = ClsPanic
			o.Panic = panicString(p)
		}
		if w != nil {
			w.SetPlanning(false)
			o.Events = w.EventsFrom(n)
		}
	}()
	o.Func, o.Err = f.Redefine(withTrace(w, args)...)
	o.Class = classify(w, o.Err)
	return
}
