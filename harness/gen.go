package main

import (
	"fmt"
	"math/rand"
	"strings"
)

// ---------------------------------------------------------------------------
// G-general: small pools on purpose — collisions between names, types and
// subtypes are where the edge rules interact.
// ---------------------------------------------------------------------------

type GenCfg struct {
	NTypes    int // concrete types used (<= nConcrete)
	Ifaces    bool
	Names     []string
	Subs      []string
	MaxIn     int
	MaxConv   int
	MaxConvIn int
	MaxOut    int
	MaxTgt    int
	PosRepeat bool    // positional lists may repeat a type
	ErrP      float64 // probability that a function declares a trailing error
	FailP     float64 // probability that an error-declaring converter fails
	OnceP     float64
	BuiltP    float64 // probability of the BuildFunc form
	RawP      float64 // probability of Converter(raw) delivery
	GenP      float64 // probability of ConverterGen delivery
	NameP     float64 // probability that a struct field is named (default .5)
	SubP      float64 // probability of a subtype (default 1/3)
}

var defaultCfg = GenCfg{
	NTypes: 6, Ifaces: true, Names: []string{"a", "b", "c"}, Subs: []string{"x", "y"},
	MaxIn: 3, MaxConv: 5, MaxConvIn: 3, MaxOut: 2, MaxTgt: 3,
	PosRepeat: true, ErrP: 0.3, FailP: 0, OnceP: 0.1, BuiltP: 0.15, RawP: 0.15, GenP: 0.1,
}

func (c GenCfg) nameP() float64 {
	if c.NameP == 0 {
		return 0.5
	}
	return c.NameP
}

func (c GenCfg) subP() float64 {
	if c.SubP == 0 {
		return 1.0 / 3
	}
	return c.SubP
}

func (c GenCfg) label(r *rand.Rand, allowName, allowSub, allowIface bool) Label {
	var l Label
	l.Type = r.Intn(c.NTypes)
	if allowIface && c.Ifaces && r.Intn(5) == 0 {
		l.Type = randIface(r)
	}
	if allowName && len(c.Names) > 0 && chance(r, c.nameP()) {
		l.Name = pick(r, c.Names)
	}
	if allowSub && len(c.Subs) > 0 && chance(r, c.subP()) {
		l.Sub = pick(r, c.Subs)
	}
	return l
}

// list generates a well-formed label list for the given form: no repeated
// name, no repeated type among type-only struct fields; positional lists may
// repeat a type when PosRepeat is set.
func (c GenCfg) list(r *rand.Rand, n int, form int, iface bool) []Label {
	var out []Label
	names := map[string]bool{}
	tkeys := map[int]bool{}
	for tries := 0; len(out) < n && tries < 200; tries++ {
		l := c.label(r, form != FormPos, form != FormPos, iface)
		if l.Name != "" {
			if names[l.Name] {
				continue
			}
			names[l.Name] = true
		} else {
			if tkeys[l.Type] && !(form == FormPos && c.PosRepeat) {
				continue
			}
			tkeys[l.Type] = true
		}
		out = append(out, l)
	}
	return out
}

func (c GenCfg) fn(r *rand.Rand, nin, nout int, target bool) FuncSpec {
	var f FuncSpec
	if chance(r, c.BuiltP) {
		f.InForm, f.OutForm = FormBuilt, FormBuilt
		f.HasErr = true
	} else {
		f.InForm = r.Intn(3)
		f.OutForm = r.Intn(3)
		f.HasErr = chance(r, c.ErrP)
	}
	lf := func(form int) int {
		if form == FormBuilt {
			return FormStruct
		}
		return form
	}
	f.In = c.list(r, nin, lf(f.InForm), true)
	f.Out = c.list(r, nout, lf(f.OutForm), true)
	if len(f.In) == 0 && f.InForm != FormBuilt {
		f.InForm = FormPos
	}
	if len(f.Out) == 0 && f.OutForm != FormBuilt {
		f.OutForm = FormPos
	}
	if f.HasErr && !target {
		f.Fail = chance(r, c.FailP)
	}
	if !target {
		f.Once = chance(r, c.OnceP)
		x := r.Float64()
		switch {
		case x < c.RawP && f.InForm != FormBuilt && !f.Once:
			f.Deliver = DelRaw
		case x < c.RawP+c.GenP:
			f.Deliver = DelGen
		}
	}
	return f
}

func (c GenCfg) inputs(r *rand.Rand, n int) []Label {
	var out []Label
	seen := map[string]bool{}
	for i := 0; i < n; i++ {
		l := c.label(r, true, true, false)
		k := inputKey(l)
		if seen[k] {
			continue
		}
		seen[k] = true
		out = append(out, l)
	}
	return out
}

// inputKey is the option key under which the library stores a supplied value:
// named values are keyed by (name, subtype), type-only values by (type, subtype).
func inputKey(l Label) string {
	if l.Name != "" {
		return "n:" + l.Name + "/" + l.Sub
	}
	return fmt.Sprintf("t:%d/%s", l.Type, l.Sub)
}

// goTypeKey approximates the Go function type of a spec for the purpose of
// avoiding two functions with an identical Go type (the library identifies a
// function vertex by its Go type). Struct forms are unique per function by
// construction (field names), so only all-positional functions can collide.
func goTypeKey(f FuncSpec) string {
	if f.InForm == FormBuilt || (len(f.In) > 0 && f.InForm != FormPos) || (len(f.Out) > 0 && f.OutForm != FormPos) {
		return ""
	}
	k := "("
	for _, l := range f.In {
		k += typeName(l.Type) + ","
	}
	k += ")("
	for _, l := range f.Out {
		k += typeName(l.Type) + ","
	}
	return k + fmt.Sprint(")", f.HasErr)
}

// dedupeTypes drops converters whose Go type equals that of the target or of
// an earlier converter.
func dedupeTypes(s *Scenario) {
	seen := map[string]bool{}
	if k := goTypeKey(s.Target); k != "" {
		seen[k] = true
	}
	var out []FuncSpec
	for _, c := range s.Convs {
		k := goTypeKey(c)
		if k != "" && seen[k] {
			continue
		}
		if k != "" {
			seen[k] = true
		}
		out = append(out, c)
	}
	s.Convs = out
}

// fixDelivery makes generator-delivered converters well-defined: the trigger
// is the type of some supplied input (such a vertex always exists when the
// generators run); without inputs fall back to plain delivery.
func fixDelivery(s *Scenario, r *rand.Rand) {
	// A generator is shown every value vertex of the call graph as it stands
	// once the given converters have been added: supplied values, the
	// target's NAMED requirements, the named inputs and all outputs of the
	// GIVEN converters. The trigger of a generated converter is the type of one of
	// those, so that the generator always gets to manufacture it — half of
	// the time a type that only occurs as an intermediate value.
	var direct, inter []int
	for _, l := range s.Inputs {
		direct = append(direct, l.Type)
	}
	for _, c := range s.Convs {
		if c.Deliver == DelGen {
			continue
		}
		// (type-only REQUIREMENTS are argument vertices, not values: a
		// generator is not shown those)
		for _, l := range c.In {
			if l.Name != "" {
				inter = append(inter, l.Type)
			}
		}
		for _, l := range c.Out {
			inter = append(inter, l.Type)
		}
	}
	for _, l := range s.Target.In {
		if l.Name != "" {
			inter = append(inter, l.Type)
		}
	}
	for i := range s.Convs {
		if s.Convs[i].Deliver == DelGen {
			switch {
			case len(inter) > 0 && (len(direct) == 0 || r.Intn(2) == 0):
				s.Convs[i].GenTrig = pick(r, inter)
			case len(direct) > 0:
				s.Convs[i].GenTrig = pick(r, direct)
			default:
				s.Convs[i].Deliver = DelFunc
			}
		}
	}
}

func (c GenCfg) Scenario(r *rand.Rand) Scenario {
	var s Scenario
	s.Inputs = c.inputs(r, r.Intn(c.MaxIn+1))
	nc := r.Intn(c.MaxConv + 1)
	for i := 0; i < nc; i++ {
		s.Convs = append(s.Convs, c.fn(r, r.Intn(c.MaxConvIn+1), 1+r.Intn(c.MaxOut), false))
	}
	s.Target = c.fn(r, 1+r.Intn(c.MaxTgt), r.Intn(2), true)
	dedupeTypes(&s)
	fixDelivery(&s, r)
	return s
}

// ---------------------------------------------------------------------------
// Constructive generators: target parameters MUST-derivable by construction.
// ---------------------------------------------------------------------------

// producerFor returns an output label from which p is MUST-derivable.
func producerFor(p Label, r *rand.Rand) Label {
	var cands []Label
	if p.Name != "" {
		cands = append(cands, Label{Name: p.Name, Type: p.Type, Sub: p.Sub}) // M1
		if p.Sub == "" {
			cands = append(cands, Label{Name: p.Name, Type: p.Type, Sub: "x"}) // M2
		}
		cands = append(cands, Label{Type: p.Type}) // M3
		if isIface(p.Type) {
			c := concreteFor(p.Type, r)
			cands = append(cands, Label{Type: c}, Label{Type: c, Sub: "y"}) // M4
			if p.Type != tI2 {
				cands = append(cands, Label{Type: tI2}) // a narrower interface implements it too
			}
		}
	} else {
		cands = append(cands, Label{Type: p.Type, Sub: p.Sub}) // M6 equal
		if p.Sub == "" {
			cands = append(cands, Label{Name: pick(r, []string{"a", "b", "c"}), Type: p.Type},
				Label{Name: pick(r, []string{"a", "b"}), Type: p.Type, Sub: "x"}, // M5
				Label{Type: p.Type, Sub: "y"})                                    // M6 one empty
		} else {
			cands = append(cands, Label{Name: pick(r, []string{"a", "b", "c"}), Type: p.Type, Sub: p.Sub}, // M5
				Label{Type: p.Type}) // M6 one empty
		}
		if isIface(p.Type) {
			c := concreteFor(p.Type, r)
			cands = append(cands, Label{Type: c}, Label{Type: c, Sub: "x"}) // M7
			if p.Type != tI2 {
				cands = append(cands, Label{Type: tI2})
			}
		}
	}
	l := pick(r, cands)
	if !must(l, p) {
		panic(fmt.Sprintf("harness bug: producerFor(%v) gave %v which is not a MUST match", p, l))
	}
	return l
}

// formFor chooses a form able to carry the labels (positional lists cannot
// carry names or subtypes, nor interface... they can carry interface types).
func formFor(ls []Label, r *rand.Rand, allowBuilt bool) int {
	pos := true
	seen := map[int]bool{}
	for _, l := range ls {
		if l.Name != "" || l.Sub != "" {
			pos = false
		}
		if seen[l.Type] {
			// positional lists may repeat a type but then both receive the
			// same value; keep constructive cases simple
			pos = false
		}
		seen[l.Type] = true
	}
	var c []int
	if pos {
		c = append(c, FormPos, FormPos)
	}
	c = append(c, FormStruct, FormPtr)
	_ = allowBuilt
	return pick(r, c)
}

// wellFormedList reports whether ls can be one parameter/result list.
func wellFormedList(ls []Label) bool {
	names := map[string]bool{}
	tk := map[int]bool{}
	for _, l := range ls {
		if l.Name != "" {
			if names[l.Name] {
				return false
			}
			names[l.Name] = true
		} else {
			if tk[l.Type] {
				return false
			}
			tk[l.Type] = true
		}
	}
	return true
}

// ChainCfg parameterises the constructive generator.
type ChainCfg struct {
	MaxTgt     int
	MaxDepth   int     // chain length per parameter
	MultiIn    bool    // converters may take 2 inputs (DAG with fan-in); else single-input only
	Cycles     bool    // add back-edges / bidirectional partners (single-input only)
	Distract   int     // number of G-general distractor converters
	FailP      float64 // converters fail with this probability
	OnceP      float64
	BuiltP     float64
	Subtypes   bool
	Ifaces     bool
	ErrP       float64
	DistractIn int // number of distractor inputs
}

// Constructive builds a scenario whose target parameters are MUST-derivable.
// It returns the scenario and the maximum chain depth used.
func Constructive(r *rand.Rand, cc ChainCfg) (Scenario, int) {
	var s Scenario
	nt := 1 + r.Intn(cc.MaxTgt)
	// target parameters over distinct types so that derivations do not interfere
	perm := r.Perm(nConcrete)
	var tin []Label
	for i := 0; i < nt; i++ {
		l := Label{Type: perm[i]}
		if cc.Ifaces && r.Intn(6) == 0 {
			l.Type = randIface(r)
		}
		if r.Intn(2) == 0 {
			l.Name = []string{"a", "b", "c"}[i%3]
		}
		if cc.Subtypes && r.Intn(4) == 0 {
			l.Sub = pick(r, []string{"x", "y"})
		}
		tin = append(tin, l)
	}
	if !wellFormedList(tin) {
		tin = tin[:1]
	}
	s.Target = FuncSpec{In: tin, InForm: formFor(tin, r, false)}
	if r.Intn(2) == 0 {
		s.Target.Out = []Label{{Type: r.Intn(nConcrete)}}
	}
	s.Target.HasErr = chance(r, cc.ErrP)

	maxDepth := 0
	usedIn := map[string]bool{}
	addInput := func(l Label) {
		// inputs are concrete
		if isIface(l.Type) {
			l.Type = concreteFor(l.Type, r)
		}
		k := inputKey(l)
		if usedIn[k] {
			return
		}
		usedIn[k] = true
		s.Inputs = append(s.Inputs, l)
	}
	// need: produce label p via a chain of given depth ending in an input
	var need func(p Label, depth int)
	need = func(p Label, depth int) {
		src := producerFor(p, r)
		if depth <= 0 || len(s.Convs) >= 7 {
			if isIface(src.Type) {
				src.Type = concreteFor(src.Type, r)
			}
			// an input with this key may exist already with another type
			if src.Name != "" && usedIn[inputKey(src)] {
				// fall back to a type-only input (keys of type-only
				// inputs only collide with identical labels)
				src = Label{Type: concreteFor(p.Type, r)}
				if p.Name == "" && !isIface(p.Type) {
					src.Sub = p.Sub
				}
			}
			addInput(src)
			return
		}
		// a converter producing src from something else
		nin := 1
		if cc.MultiIn && r.Intn(3) == 0 {
			nin = 2
		}
		var cin []Label
		for k := 0; k < nin; k++ {
			l := Label{Type: r.Intn(nConcrete)}
			if cc.Ifaces && r.Intn(8) == 0 {
				l.Type = randIface(r)
			}
			if r.Intn(3) == 0 {
				l.Name = pick(r, []string{"a", "b", "c", "d"})
			}
			if cc.Subtypes && r.Intn(5) == 0 {
				l.Sub = pick(r, []string{"x", "y"})
			}
			cin = append(cin, l)
		}
		if !wellFormedList(cin) {
			cin = cin[:1]
		}
		f := FuncSpec{In: cin, Out: []Label{src}}
		if r.Intn(4) == 0 {
			// a second, unrelated output
			extra := Label{Type: r.Intn(nConcrete)}
			if extra.Type != src.Type {
				f.Out = append(f.Out, extra)
			}
		}
		if chance(r, cc.BuiltP) {
			f.InForm, f.OutForm, f.HasErr = FormBuilt, FormBuilt, true
		} else {
			f.InForm = formFor(f.In, r, false)
			f.OutForm = formFor(f.Out, r, false)
			f.HasErr = chance(r, 0.4) || cc.FailP > 0
		}
		if f.HasErr {
			f.Fail = chance(r, cc.FailP)
		}
		f.Once = chance(r, cc.OnceP)
		s.Convs = append(s.Convs, f)
		for _, l := range cin {
			need(l, depth-1)
		}
	}
	for _, p := range tin {
		d := r.Intn(cc.MaxDepth + 1)
		if d > maxDepth {
			maxDepth = d
		}
		need(p, d)
	}
	if cc.Cycles {
		// add reverse converters: for some existing single-input converter
		// in->out add out->in (bidirectional), or close a longer ring.
		n := len(s.Convs)
		for i := 0; i < n && len(s.Convs) < 8; i++ {
			c := s.Convs[i]
			if len(c.In) != 1 || r.Intn(2) == 0 {
				continue
			}
			from := c.Out[0]
			to := c.In[0]
			if isIface(to.Type) {
				continue
			}
			// the reverse converter consumes what c produces, as a plain
			// type-only parameter of that type, and produces c's input label
			rin := Label{Type: from.Type}
			if isIface(rin.Type) {
				continue
			}
			rev := FuncSpec{In: []Label{rin}, Out: []Label{to}}
			rev.InForm = formFor(rev.In, r, false)
			rev.OutForm = formFor(rev.Out, r, false)
			rev.HasErr = chance(r, 0.3)
			s.Convs = append(s.Convs, rev)
		}
	}
	// distractors
	dc := defaultCfg
	dc.FailP = 0
	dc.BuiltP = cc.BuiltP
	dc.GenP, dc.RawP = 0.1, 0.1
	if !cc.Subtypes {
		dc.Subs = nil
	}
	dc.Ifaces = cc.Ifaces
	if !cc.MultiIn {
		dc.MaxConvIn = 1
	}
	for i := 0; i < cc.Distract && r.Intn(2) == 0; i++ {
		d := dc.fn(r, r.Intn(dc.MaxConvIn+1), 1+r.Intn(2), false)
		d.Fail = false
		s.Convs = append(s.Convs, d)
	}
	for i := 0; i < cc.DistractIn && r.Intn(2) == 0; i++ {
		addInput(dc.label(r, true, cc.Subtypes, false))
	}
	r.Shuffle(len(s.Convs), func(i, j int) { s.Convs[i], s.Convs[j] = s.Convs[j], s.Convs[i] })
	dedupeTypes(&s)
	fixDelivery(&s, r)
	return s, maxDepth
}

// ---------------------------------------------------------------------------
// G-hostile: hand-shaped families known to be hard for the resolver.
// ---------------------------------------------------------------------------

func distinctTypes(r *rand.Rand, n int) []int { return r.Perm(nConcrete)[:n] }

func posFn(in []int, out []int) FuncSpec {
	f := FuncSpec{InForm: FormPos, OutForm: FormPos}
	for _, t := range in {
		f.In = append(f.In, Label{Type: t})
	}
	for _, t := range out {
		f.Out = append(f.Out, Label{Type: t})
	}
	return f
}

// Hostile returns a scenario from one of the hostile families and its name.
func Hostile(r *rand.Rand) (Scenario, string) {
	t := distinctTypes(r, 6)
	var s Scenario
	fam := r.Intn(16)
	switch fam {
	case 15: // same-typed type-only values that differ in their subtype only, consumed side by side
		// conv: (T0/x, T0/y[, T0]) -> T1 ; target T1 (and optionally T0/y itself)
		s.Inputs = []Label{{Type: t[0], Sub: "x"}, {Type: t[0], Sub: "y"}}
		in := []Label{{Type: t[0], Sub: "x"}, {Type: t[0], Sub: "y"}}
		if r.Intn(2) == 0 {
			in = append(in, Label{Type: t[2]})
			s.Inputs = append(s.Inputs, Label{Type: t[2]})
		}
		r.Shuffle(len(in), func(a, b int) { in[a], in[b] = in[b], in[a] })
		s.Convs = []FuncSpec{{In: in, Out: []Label{{Type: t[1]}}, InForm: 1 + r.Intn(2), OutForm: FormPos, HasErr: r.Intn(2) == 0}}
		s.Target = FuncSpec{In: []Label{{Type: t[1]}}, InForm: 1 + r.Intn(2)}
		if r.Intn(2) == 0 {
			s.Target.In = append(s.Target.In, Label{Type: t[0], Sub: pick(r, []string{"x", "y"})})
		}
		if r.Intn(2) == 0 {
			// one more level: the converter sits behind another one
			s.Convs = append(s.Convs, FuncSpec{In: []Label{{Type: t[1]}, {Type: t[0], Sub: "y"}}, Out: []Label{{Type: t[3]}}, InForm: 1 + r.Intn(2), OutForm: FormPos})
			s.Target.In[0] = Label{Type: t[3]}
		}
		return s, "typed-subtypes-side-by-side"
	case 14: // dependency cycle through two multi-input converters with single-input converters in between
		// A:(eA,eS)->eX, C:eX->eB, B:(eB,eS)->eA1, D:eA1->eA; only eS supplied
		eS, eA, eX, eB, eA1 := t[0], t[1], t[2], t[3], t[4]
		s.Inputs = []Label{{Type: eS}}
		s.Convs = []FuncSpec{
			posFn([]int{eA, eS}, []int{eX}),
			posFn([]int{eX}, []int{eB}),
			posFn([]int{eB, eS}, []int{eA1}),
			posFn([]int{eA1}, []int{eA}),
		}
		r.Shuffle(len(s.Convs), func(i, j int) { s.Convs[i], s.Convs[j] = s.Convs[j], s.Convs[i] })
		s.Target = posFn([]int{pick(r, []int{eX, eB, eA1, eA})}, nil)
		return s, "mutual-spaced"
	case 13:
		return sameNameUnnamed(r), "same-name-unnamed-types"
	case 12: // a value of a type Go considers assignable to the parameter's type, yet a different type
		pr := [][2]int{{9, 10}, {10, 9}, {13, 14}, {14, 13}, {16, 15}}[r.Intn(5)] // {wanted, supplied}
		n := pick(r, []string{"a", ""})
		s.Inputs = []Label{{Name: n, Type: pr[1]}}
		s.Target = FuncSpec{In: []Label{{Name: n, Type: pr[0]}}, InForm: FormStruct}
		switch r.Intn(3) {
		case 0: // the value is produced by a converter
			s.Inputs = []Label{{Type: t[0]}}
			s.Convs = []FuncSpec{{In: []Label{{Type: t[0]}}, Out: []Label{{Name: n, Type: pr[1]}}, InForm: FormPos, OutForm: FormStruct}}
		case 1: // the consumer is a converter
			s.Convs = []FuncSpec{{In: []Label{{Name: n, Type: pr[0]}}, Out: []Label{{Type: t[1]}}, InForm: FormStruct, OutForm: FormPos}}
			s.Target = posFn([]int{t[1]}, nil)
		}
		return s, "assignable-not-identical"
	case 10: // subtype matching must not become transitive: a:T/y -> a:T (converter input) -/-> a:T/x
		n := pick(r, []string{"a", "b", ""})
		s.Inputs = []Label{{Name: n, Type: t[0], Sub: "y"}}
		s.Convs = []FuncSpec{{In: []Label{{Name: n, Type: t[0]}}, Out: []Label{{Type: t[1]}}, InForm: FormStruct, OutForm: FormPos}}
		s.Target = FuncSpec{In: []Label{{Name: n, Type: t[0], Sub: "x"}}, InForm: FormStruct}
		if r.Intn(2) == 0 {
			s.Target.In = append(s.Target.In, Label{Type: t[1]})
		}
		return s, "subtype-not-transitive"
	case 11: // the same with the subtype-less vertex declared by an unsatisfiable provider
		n := pick(r, []string{"a", "b", ""})
		s.Inputs = []Label{{Name: n, Type: t[0], Sub: "y"}}
		s.Convs = []FuncSpec{{In: []Label{{Type: t[4]}}, Out: []Label{{Name: n, Type: t[0]}}, InForm: FormPos, OutForm: FormStruct}}
		s.Target = FuncSpec{In: []Label{{Name: n, Type: t[0], Sub: "x"}}, InForm: FormStruct}
		return s, "subtype-not-transitive-provider"
	case 0: // mutual recursion between two multi-input converters (D2 shape)
		s.Inputs = []Label{{Type: t[0]}}
		s.Convs = []FuncSpec{posFn([]int{t[0], t[1]}, []int{t[2]}), posFn([]int{t[0], t[2]}, []int{t[1]})}
		s.Target = posFn([]int{t[2]}, nil)
		return s, "mutual-2"
	case 1: // ring of three multi-input converters
		s.Inputs = []Label{{Type: t[0]}}
		s.Convs = []FuncSpec{
			posFn([]int{t[0], t[1]}, []int{t[2]}),
			posFn([]int{t[0], t[2]}, []int{t[3]}),
			posFn([]int{t[0], t[3]}, []int{t[1]}),
		}
		s.Target = posFn([]int{pick(r, []int{t[1], t[2], t[3]})}, nil)
		return s, "mutual-3"
	case 2: // converter consuming its own output type
		s.Inputs = []Label{{Type: t[0]}}
		s.Convs = []FuncSpec{posFn([]int{t[0], t[1]}, []int{t[1]})}
		s.Target = posFn([]int{t[1]}, nil)
		return s, "self-consume"
	case 3: // mutual cycle but an alternative acyclic producer exists
		s.Inputs = []Label{{Type: t[0]}}
		s.Convs = []FuncSpec{
			posFn([]int{t[0], t[1]}, []int{t[2]}),
			posFn([]int{t[0], t[2]}, []int{t[1]}),
			posFn([]int{t[0]}, []int{t[1]}),
		}
		s.Target = posFn([]int{t[2]}, nil)
		return s, "mutual-with-exit"
	case 4: // positional parameters repeating a type (D1 shape)
		s.Inputs = []Label{{Type: t[0]}, {Type: t[1]}}
		s.Target = posFn([]int{t[0], t[0], t[1]}, []int{t[0], t[0]})
		s.Convs = []FuncSpec{posFn([]int{t[1], t[1]}, []int{t[2], t[2]})}
		return s, "pos-repeat"
	case 5: // typed-with-subtype next to a named parameter (D3 shape)
		s.Inputs = []Label{{Type: t[0]}}
		s.Target = FuncSpec{In: []Label{{Type: t[0], Sub: "x"}, {Name: "b", Type: t[0], Sub: "x"}}, InForm: FormStruct}
		if r.Intn(2) == 0 {
			s.Target.In = append(s.Target.In, Label{Type: t[3]})
			s.Inputs = append(s.Inputs, Label{Type: t[3]})
		}
		return s, "typedsub+named"
	case 6: // provider competing with input; empty marker struct
		s.Inputs = []Label{{Type: t[0]}}
		s.Convs = []FuncSpec{posFn(nil, []int{t[0]}), {InForm: FormStruct, OutForm: FormPos, Out: []Label{{Type: t[1]}}}}
		s.Target = posFn([]int{t[0], t[1]}, nil)
		return s, "provider-vs-input"
	case 7: // same-named chain (D6 shape): a:T3 supplied, a:T0/y supplied, converter a:T0 -> a:T3
		s.Inputs = []Label{{Name: "a", Type: t[3]}, {Name: "a", Type: t[0], Sub: "y"}}
		s.Convs = []FuncSpec{{In: []Label{{Name: "a", Type: t[0]}}, Out: []Label{{Name: "a", Type: t[3]}}, InForm: FormStruct, OutForm: FormStruct}}
		s.Target = FuncSpec{In: []Label{{Name: "a", Type: t[3]}}, InForm: FormStruct}
		return s, "same-name-chain"
	case 8: // reachable in the graph but not derivable: prerequisite behind multi-input converter
		s.Inputs = []Label{{Type: t[0]}}
		s.Convs = []FuncSpec{posFn([]int{t[0], t[4]}, []int{t[1]}), posFn([]int{t[1]}, []int{t[2]})}
		s.Target = posFn([]int{t[2]}, nil)
		return s, "unreachable-prereq"
	default: // many equal-cost alternatives
		s.Inputs = []Label{{Type: t[0]}}
		for i := 1; i <= 3; i++ {
			s.Convs = append(s.Convs, posFn([]int{t[0]}, []int{t[i]}), posFn([]int{t[i]}, []int{t[4]}))
		}
		s.Target = posFn([]int{t[4]}, nil)
		return s, "equal-cost"
	}
}

// ---------------------------------------------------------------------------
// Layered generator for C05 scope (b): multi-input converters, acyclic under
// the type-only dependency relation, every converter MUST-satisfiable.
// ---------------------------------------------------------------------------

// consumerFor returns a parameter label that MUST-matches src.
func consumerFor(src Label, r *rand.Rand, subtypes bool) Label {
	cands := []Label{src}
	if src.Name != "" {
		cands = append(cands, Label{Type: src.Type}, Label{Type: src.Type, Sub: src.Sub})
		if src.Sub != "" {
			cands = append(cands, Label{Name: src.Name, Type: src.Type})
		}
	} else {
		if src.Sub == "" {
			cands = append(cands, Label{Name: pick(r, []string{"a", "b", "c"}), Type: src.Type})
			if subtypes {
				cands = append(cands, Label{Type: src.Type, Sub: "x"}, Label{Name: pick(r, []string{"a", "b"}), Type: src.Type, Sub: "y"})
			}
		} else {
			cands = append(cands, Label{Type: src.Type})
		}
		for _, it := range []int{tI0, tI1, tI2} {
			if implements(src.Type, it) {
				cands = append(cands, Label{Type: it}, Label{Name: pick(r, []string{"a", "b", "c"}), Type: it})
			}
		}
	}
	for tries := 0; tries < 20; tries++ {
		l := pick(r, cands)
		if must(src, l) {
			return l
		}
	}
	return src
}

// Layered builds a scope-(b) scenario.
func Layered(r *rand.Rand, subtypes bool, failP float64) Scenario {
	var s Scenario
	rank := r.Perm(nTypes) // rank[t]
	inRank := func(t int) int {
		m := rank[t]
		for c := 0; c < nTypes; c++ {
			if implements(c, t) && rank[c] > m {
				m = rank[c]
			}
		}
		return m
	}
	// supplied values: concrete types of low rank
	var avail []Label
	keys := map[string]bool{}
	for i := 0; i < 1+r.Intn(3); i++ {
		t := r.Intn(nConcrete)
		if rank[t] > 4 {
			continue
		}
		l := Label{Type: t}
		if r.Intn(2) == 0 {
			l.Name = pick(r, []string{"a", "b", "c"})
		}
		if subtypes && r.Intn(4) == 0 {
			l.Sub = pick(r, []string{"x", "y"})
		}
		if keys[inputKey(l)] {
			continue
		}
		keys[inputKey(l)] = true
		s.Inputs = append(s.Inputs, l)
		avail = append(avail, l)
	}
	if len(avail) == 0 {
		l := Label{Type: 0}
		for t := 0; t < nConcrete; t++ {
			if rank[t] < rank[l.Type] {
				l.Type = t
			}
		}
		s.Inputs = append(s.Inputs, l)
		avail = append(avail, l)
	}
	nconv := 1 + r.Intn(6)
	for i := 0; i < nconv; i++ {
		nin := 1 + r.Intn(3)
		var in []Label
		maxIn := -1
		for k := 0; k < nin; k++ {
			p := consumerFor(pick(r, avail), r, subtypes)
			nl := append(append([]Label{}, in...), p)
			if !wellFormedList(nl) {
				continue
			}
			in = nl
			if ir := inRank(p.Type); ir > maxIn {
				maxIn = ir
			}
		}
		if len(in) == 0 {
			continue
		}
		// outputs of strictly higher rank
		var higher []int
		for t := 0; t < nTypes; t++ {
			if rank[t] > maxIn {
				higher = append(higher, t)
			}
		}
		if len(higher) == 0 {
			continue
		}
		var out []Label
		for k := 0; k < 1+r.Intn(2); k++ {
			l := Label{Type: pick(r, higher)}
			if r.Intn(3) == 0 {
				l.Name = pick(r, []string{"a", "b", "c", "d"})
			}
			if subtypes && r.Intn(5) == 0 {
				l.Sub = pick(r, []string{"x", "y"})
			}
			nl := append(append([]Label{}, out...), l)
			if wellFormedList(nl) {
				out = nl
			}
		}
		f := FuncSpec{In: in, Out: out}
		if r.Intn(6) == 0 {
			f.InForm, f.OutForm, f.HasErr = FormBuilt, FormBuilt, true
		} else {
			f.InForm, f.OutForm = formFor(in, r, false), formFor(out, r, false)
			f.HasErr = r.Intn(3) == 0 || failP > 0
		}
		if f.HasErr {
			f.Fail = chance(r, failP)
		}
		f.Once = r.Intn(10) == 0
		if r.Intn(8) == 0 && f.InForm != FormBuilt && !f.Once {
			f.Deliver = DelRaw
		}
		s.Convs = append(s.Convs, f)
		avail = append(avail, out...)
	}
	// target
	var tin []Label
	for k := 0; k < 1+r.Intn(3); k++ {
		p := consumerFor(pick(r, avail), r, subtypes)
		nl := append(append([]Label{}, tin...), p)
		if wellFormedList(nl) {
			tin = nl
		}
	}
	s.Target = FuncSpec{In: tin, InForm: formFor(tin, r, false), HasErr: r.Intn(3) == 0}
	if r.Intn(2) == 0 {
		s.Target.Out = []Label{{Type: r.Intn(nConcrete)}}
	}
	r.Shuffle(len(s.Convs), func(i, j int) { s.Convs[i], s.Convs[j] = s.Convs[j], s.Convs[i] })
	dedupeTypes(&s)
	fixDelivery(&s, r)
	return s
}

// oddNameOf maps the generators' plain value names to names that are legal in
// a struct tag but are not Go identifiers. Matching only ever compares names
// as (lower-cased) strings, so a scenario renamed this way has the same
// model; the library must not derive Go identifiers from them either.
var oddNameOf = map[string]string{"a": "a-b", "b": "1st", "c": "_x", "d": "x.y z", "dd": "d/d", "e": "é1"}

func oddLabels(ls []Label) []Label {
	out := make([]Label, len(ls))
	for i, l := range ls {
		if o, ok := oddNameOf[l.Name]; ok {
			l.Name = o
		}
		out[i] = l
	}
	return out
}

// oddNames returns s with every value name replaced through oddNameOf.
func oddNames(s Scenario) Scenario {
	t := s
	t.Inputs = oddLabels(s.Inputs)
	t.Target.In = oddLabels(s.Target.In)
	t.Target.Out = oddLabels(s.Target.Out)
	t.Convs = make([]FuncSpec, len(s.Convs))
	for i, c := range s.Convs {
		c.In = oddLabels(c.In)
		c.Out = oddLabels(c.Out)
		t.Convs[i] = c
	}
	return t
}

// unicodeNameOf maps the generators' plain value names to names that start
// with a non-ASCII letter. structType spells such a name with its first letter
// in upper case in the struct tag ("Ärger": a capital that is not ASCII and no
// other capital), the options spell it in lower case: names are compared case
// insensitively, whatever the alphabet.
var unicodeNameOf = map[string]string{"a": "ärger", "b": "ölstand", "c": "énergie", "d": "ñu", "dd": "üdd", "e": "çe"}

// unicodeNames returns s with every value name replaced through unicodeNameOf.
func unicodeNames(s Scenario) Scenario {
	f := func(ls []Label) []Label {
		out := make([]Label, len(ls))
		for i, l := range ls {
			if o, ok := unicodeNameOf[l.Name]; ok {
				l.Name = o
			}
			out[i] = l
		}
		return out
	}
	t := s
	t.Inputs = f(s.Inputs)
	t.Target.In = f(s.Target.In)
	t.Target.Out = f(s.Target.Out)
	t.Convs = make([]FuncSpec, len(s.Convs))
	for i, c := range s.Convs {
		c.In = f(c.In)
		c.Out = f(c.Out)
		t.Convs[i] = c
	}
	return t
}

// oddSubs returns s with every subtype replaced by a free-form one (the
// mapping is injective, so which labels match which is unchanged): a subtype
// is an arbitrary string -- a media type, key=value, several words.
func oddSubs(s Scenario) Scenario {
	f := func(ls []Label) []Label {
		out := make([]Label, len(ls))
		for i, l := range ls {
			if l.Sub != "" {
				l.Sub = l.Sub + "=q " + l.Sub + "/+%2C%"
			}
			out[i] = l
		}
		return out
	}
	t := s
	t.Inputs = f(s.Inputs)
	t.Target.In = f(s.Target.In)
	t.Target.Out = f(s.Target.Out)
	t.Convs = make([]FuncSpec, len(s.Convs))
	for i, c := range s.Convs {
		c.In = f(c.In)
		c.Out = f(c.Out)
		t.Convs[i] = c
	}
	return t
}

// sameNameUnnamed: values of one name and different UNNAMED Go types (their
// reflect.Type.Name() is empty), one of them carrying a subtype, linked by a
// single-input converter: n:B/json -> n:A/parsed, target n:A. Derivable, and
// in C05's scope (a).
func sameNameUnnamed(r *rand.Rand) Scenario {
	un := []int{9, 11, 12, 13, 15, 17}
	p := r.Perm(len(un))
	A, B := un[p[0]], un[p[1]]
	n := pick(r, []string{"a", "b", "c"})
	var s Scenario
	s.Inputs = []Label{{Name: n, Type: B, Sub: "json"}}
	s.Convs = []FuncSpec{{In: []Label{{Name: n, Type: B, Sub: "json"}}, Out: []Label{{Name: n, Type: A, Sub: "parsed"}}, InForm: FormStruct, OutForm: FormStruct, HasErr: r.Intn(2) == 0}}
	s.Target = FuncSpec{In: []Label{{Name: n, Type: A}}, InForm: FormStruct}
	switch r.Intn(3) {
	case 0: // both forms supplied
		s.Inputs = append(s.Inputs, Label{Name: n, Type: A, Sub: "parsed"})
	case 1: // an unrelated parameter next to it
		s.Inputs = append(s.Inputs, Label{Type: 0})
		s.Target.In = append(s.Target.In, Label{Type: 0})
	}
	return s
}

// manyInterfaces: a target with three or four interface-typed, type-only
// parameters (I0, I1, I2 and I0 or I1 again under a name), every one of them
// satisfied by supplied implementations (one T1 for all, or one value each),
// optionally through a single-input converter. Derivable; scope (a).
func manyInterfaces(r *rand.Rand) Scenario {
	var s Scenario
	s.Target = FuncSpec{In: []Label{{Type: tI0}, {Type: tI1}, {Type: tI2}}, InForm: r.Intn(3)}
	if r.Intn(2) == 0 {
		s.Target.In = append(s.Target.In, Label{Name: "n", Type: pick(r, []int{tI0, tI1})})
		s.Target.InForm = 1 + r.Intn(2)
	}
	r.Shuffle(len(s.Target.In), func(a, b int) { s.Target.In[a], s.Target.In[b] = s.Target.In[b], s.Target.In[a] })
	switch r.Intn(3) {
	case 0:
		s.Inputs = []Label{{Type: 1}}
	case 1:
		s.Inputs = []Label{{Type: 0}, {Type: 2}, {Type: 1}}
	default:
		// T1 comes out of a converter
		s.Inputs = []Label{{Type: 3}, {Type: 0}}
		s.Convs = []FuncSpec{posFn([]int{3}, []int{1})}
	}
	return s
}

// caseSubs upper-cases the subtype of every SUPPLIED value and leaves the
// subtypes that functions declare as they are: subtypes are compared as
// written (only names are case-insensitive), so a value supplied under "X"
// is not a value of subtype "x".
func caseSubs(s Scenario) Scenario {
	t := s
	t.Inputs = make([]Label, len(s.Inputs))
	for i, l := range s.Inputs {
		l.Sub = strings.ToUpper(l.Sub)
		t.Inputs[i] = l
	}
	return t
}
