package main

import (
	"errors"
	"fmt"
	"math/rand"
	"reflect"
	"strings"
	"unicode"

	am "github.com/hashicorp/go-argmapper"
)

func recase(r *rand.Rand, s string) string {
	var b strings.Builder
	for _, c := range s {
		if r.Intn(2) == 0 {
			b.WriteRune(unicode.ToUpper(c))
		} else {
			b.WriteRune(unicode.ToLower(c))
		}
	}
	return b.String()
}

// xLabel is a label over the universe plus the error types (for C14/C17).
type xLabel struct {
	Name string
	T    reflect.Type
	Sub  string
}

func (l xLabel) String() string {
	s := ""
	if l.Name != "" {
		s = l.Name + ":"
	}
	s += l.T.String()
	if l.Sub != "" {
		s += "/" + l.Sub
	}
	return s
}

// structTypeX builds a marker struct with tag / field-name variety. Field
// i+1 belongs to label i (the marker is always first: reflect.StructOf only
// accepts an embedded field in first position).
func structTypeX(r *rand.Rand, ls []xLabel, ptr bool) reflect.Type {
	sf := []reflect.StructField{{Name: "Struct", Type: structMarkerT, Anonymous: true}}
	for i, l := range ls {
		var tags []string
		fname := fmt.Sprintf("F%d", i)
		if l.Name != "" {
			if r.Intn(2) == 0 && l.Name[0] < 0x80 && !strings.Contains(l.Name, " ") {
				// name via the field name
				fname = strings.ToUpper(l.Name[:1]) + recase(r, l.Name[1:])
				tags = append(tags, "")
			} else {
				tags = append(tags, recase(r, l.Name))
			}
		} else {
			if r.Intn(2) == 0 {
				tags = append(tags, "", "typeOnly")
			} else {
				tags = append(tags, "ignoredname", "typeOnly")
			}
		}
		if l.Sub != "" {
			tags = append(tags, "subtype="+l.Sub)
			if len(tags) == 3 && i%2 == 1 {
				// the options of a tag come in any order
				tags[1], tags[2] = tags[2], tags[1]
			}
		}
		tag := reflect.StructTag("")
		if !(len(tags) == 1 && tags[0] == "") || r.Intn(2) == 0 {
			tag = reflect.StructTag(fmt.Sprintf(`argmapper:"%s"`, strings.Join(tags, ",")))
		}
		sf = append(sf, reflect.StructField{Name: fname, Type: l.T, Tag: tag})
	}
	t := reflect.StructOf(sf)
	if ptr {
		t = reflect.PtrTo(t)
	}
	return t
}

// concErr is a concrete type implementing error (an ordinary output even in
// final position).
type concErr struct{ ID int64 }

func (c *concErr) Error() string { return fmt.Sprintf("concErr#%d", c.ID) }

var concErrT = reflect.TypeOf(&concErr{})

// ---- static struct types: marker in middle / last position, unexported fields

type stMid struct {
	A T0
	am.Struct
	B T1 `argmapper:",typeOnly"`
}
type stLast struct {
	Alpha T2 `argmapper:"beta"`
	hid   T3
	C     T4 `argmapper:",typeOnly,subtype=q"`
	am.Struct
}
type stUnexp struct {
	am.Struct
	x    T0
	Y    T1 `argmapper:"why,subtype=s"`
	z, w T2
	V    I0
}
type stPlain struct{ A T0 } // no marker: an ordinary value type

// stNested embeds a marker struct, not the marker itself: an ordinary value.
type stNested struct {
	stMid
	C T2
}

type markerAlias = am.Struct

// stAlias embeds the marker through a type alias: still the marker type.
type stAlias struct {
	markerAlias
	A T0
	B T1 `argmapper:",typeOnly"`
}

// stEmb has exported EMBEDDED fields besides the marker: they are ordinary
// exported fields (named after their type).
type stEmb struct {
	am.Struct
	I0
	A  T0
	T1 `argmapper:",typeOnly,subtype=e"`
}

type staticCase struct {
	fn      interface{}
	in, out []xLabel
	reject  bool
	name    string
}

func xl(n string, t reflect.Type, s string) xLabel { return xLabel{n, t, s} }

var staticCases = []staticCase{
	{fn: func(stMid) {}, in: []xLabel{xl("a", types[0], ""), xl("", types[1], "")}, name: "marker-middle"},
	{fn: func(*stMid) {}, in: []xLabel{xl("a", types[0], ""), xl("", types[1], "")}, name: "marker-middle-ptr"},
	{fn: func(stLast) {}, in: []xLabel{xl("beta", types[2], ""), xl("", types[4], "q")}, name: "marker-last"},
	{fn: func(stUnexp) {}, in: []xLabel{xl("why", types[1], "s"), xl("v", types[tI0], "")}, name: "unexported-skipped"},
	{fn: func() stUnexp { return stUnexp{} }, out: []xLabel{xl("why", types[1], "s"), xl("v", types[tI0], "")}, name: "struct-result"},
	{fn: func() (*stLast, error) { return nil, nil }, out: []xLabel{xl("beta", types[2], ""), xl("", types[4], "q")}, name: "ptr-struct-result+error"},
	{fn: func(stPlain) stPlain { return stPlain{} }, in: []xLabel{xl("", reflect.TypeOf(stPlain{}), "")}, out: []xLabel{xl("", reflect.TypeOf(stPlain{}), "")}, name: "plain-struct-is-a-value"},
	{fn: func(stNested) {}, in: []xLabel{xl("", reflect.TypeOf(stNested{}), "")}, name: "nested-embedding-is-a-value"},
	{fn: func(T0, stNested) stNested { return stNested{} }, in: []xLabel{xl("", types[0], ""), xl("", reflect.TypeOf(stNested{}), "")}, out: []xLabel{xl("", reflect.TypeOf(stNested{}), "")}, name: "nested-embedding-mixes-with-positional"},
	{fn: func(stAlias) {}, in: []xLabel{xl("a", types[0], ""), xl("", types[1], "")}, name: "marker-through-alias"},
	{fn: func(stEmb) {}, in: []xLabel{xl("i0", types[tI0], ""), xl("a", types[0], ""), xl("", types[1], "e")}, name: "exported-embedded-fields"},
	{fn: func() *stEmb { return nil }, out: []xLabel{xl("i0", types[tI0], ""), xl("a", types[0], ""), xl("", types[1], "e")}, name: "exported-embedded-fields-ptr-result"},
	{fn: func(T0, stAlias) {}, reject: true, name: "alias-marker+positional"},
	{fn: func(stMid, T0) {}, reject: true, name: "marker+positional"},
	{fn: func(T0, stMid) {}, reject: true, name: "positional+marker"},
	{fn: func(T0, *stLast, T1) {}, reject: true, name: "marker-in-middle-of-params"},
	{fn: func() (stMid, T0) { return stMid{}, T0{} }, reject: true, name: "marker-result+positional"},
	{fn: func() (T0, stMid, error) { return T0{}, stMid{}, nil }, reject: true, name: "positional+marker-result"},
	{fn: func(**stMid) {}, reject: true, name: "double-pointer-param"},
	{fn: func() **stLast { return nil }, reject: true, name: "double-pointer-result"},
	{fn: func(stMid, stLast) {}, reject: true, name: "two-marker-structs"},
	// a DEFINED pointer type to a marker struct is a pointer-to-struct form
	{fn: func(stMidPtr) {}, in: []xLabel{xl("a", types[0], ""), xl("", types[1], "")}, name: "defined-pointer-type-param"},
	{fn: func() (stMidPtr, error) { return nil, nil }, out: []xLabel{xl("a", types[0], ""), xl("", types[1], "")}, name: "defined-pointer-type-result"},
	{fn: func(stMidPtr, T0) {}, reject: true, name: "defined-pointer-type+positional"},
	{fn: func(*stMidPtr) {}, reject: true, name: "pointer-to-defined-pointer-type"},
	// variadic functions: the final parameter is a value of slice type
	{fn: func(a T0, rest ...T1) {}, in: []xLabel{xl("", types[0], ""), xl("", reflect.TypeOf([]T1{}), "")}, name: "variadic"},
	{fn: func(rest ...T0) T1 { return T1{} }, in: []xLabel{xl("", reflect.TypeOf([]T0{}), "")}, out: []xLabel{xl("", types[1], "")}, name: "variadic-only"},
	{fn: func(stMid, ...T0) {}, reject: true, name: "marker+variadic"},
}

// stMidPtr is a defined pointer type to a marker struct.
type stMidPtr *stMid

func valuesToX(vs []am.Value) []xLabel {
	out := make([]xLabel, len(vs))
	for i, v := range vs {
		out[i] = xLabel{v.Name, v.Type, v.Subtype}
	}
	return out
}

func xlabelsStr(ls []xLabel) string {
	var p []string
	for _, l := range ls {
		p = append(p, l.String())
	}
	return "[" + strings.Join(p, " ") + "]"
}

func init() {
	register(&Monitor{
		ID:    "C14",
		Cases: func(t string) int { return tierN(t, 10000, 300000) },
		Rule: "round trip: the Go function type is built from a label list (positional / struct / pointer-struct; names via field name or tag in random casing, ',typeOnly' with or without a dummy name, 'subtype=', with or without tags; " +
			"results with trailing error, error in the middle, two trailing errors, concrete error types in final position), NewFunc must accept it and Input()/Output().Values() must equal the list in order (names lower-cased, final error stripped), " +
			"Named/Typed/TypedSubtype must find each value, struct and pointer-struct forms must agree; 26 static shapes cover the marker in middle/last position, nested embedding (an ordinary value), the marker embedded through a type alias, unexported fields and every rejected shape " +
			"(marker struct mixed with other parameters/results at any position, **struct, two marker structs) plus non-function values. non-trivial = signature with >= 2 values or a rejected shape; distinct = distinct signature strings",
		Assumptions: []string{"only the documented tag options are generated; dynamically built structs carry the marker first (reflect.StructOf restriction), static types cover other positions"},
		Run:         runC14,
	})
}

func runC14(c *CaseCtx) (res CaseResult) {
	r := caseRand(c.Seed, "C14", c.Idx)
	if c.Idx%16 == 0 {
		return runC14Static(c, r)
	}
	if c.Idx%50 == 7 {
		return runC14SameNamedTypes(c, r)
	}
	names := []string{"alpha", "beta", "gamma", "delta", "x", "ärger"}
	subs := []string{"s", "t9", "a+b", "k=v", "v1.2/x"}
	if c.Idx%17 == 3 {
		// names and subtypes are free-form text: a blank at their edge is
		// part of them
		names = []string{"alpha ", "beta ", " gamma", "delta ", "x ", "ärger "}
		subs = []string{"s ", " t9", "a+b ", "k=v ", "v1.2/x "}
		res.obs("cases_with_blank_edged_labels", 1)
	}
	list := func(n int, form int, allowErr bool) []xLabel {
		var out []xLabel
		usedN := map[string]bool{}
		usedT := map[reflect.Type]bool{}
		for tries := 0; len(out) < n && tries < 50; tries++ {
			l := xLabel{T: types[r.Intn(nTypes)]}
			if allowErr && r.Intn(8) == 0 {
				// a PARAMETER of type error is an ordinary input, in any position
				l.T = errT
			}
			if form != FormPos {
				if r.Intn(2) == 0 {
					l.Name = pick(r, names)
				}
				if r.Intn(3) == 0 {
					l.Sub = pick(r, subs)
				}
			}
			if l.Name != "" {
				if usedN[l.Name] {
					continue
				}
				usedN[l.Name] = true
			} else {
				if usedT[l.T] && form != FormPos {
					continue
				}
				usedT[l.T] = true
			}
			out = append(out, l)
		}
		return out
	}
	inForm, outForm := r.Intn(3), r.Intn(3)
	in := list(r.Intn(5), inForm, true)
	out := list(r.Intn(4), outForm, false)
	if len(in) == 0 {
		inForm = FormPos
	}
	if len(out) == 0 {
		outForm = FormPos
	}
	var inT, inT2, outT, outT2 []reflect.Type
	rs := r.Int63()
	if inForm == FormPos {
		for _, l := range in {
			inT = append(inT, l.T)
		}
		inT2 = inT
	} else {
		inT = []reflect.Type{structTypeX(rand.New(&splitmix{s: uint64(rs)}), in, inForm == FormPtr)}
		inT2 = []reflect.Type{structTypeX(rand.New(&splitmix{s: uint64(rs)}), in, inForm != FormPtr)}
	}
	expOut := append([]xLabel{}, out...)
	if outForm == FormPos {
		for _, l := range out {
			outT = append(outT, l.T)
		}
		// error in the middle / concrete error type
		switch r.Intn(6) {
		case 0:
			outT = append(outT, errT)
			expOut = append(expOut, xLabel{T: errT})
			if r.Intn(2) == 0 {
				outT = append(outT, types[0])
				expOut = append(expOut, xLabel{T: types[0]})
			}
		case 1:
			outT = append(outT, concErrT)
			expOut = append(expOut, xLabel{T: concErrT})
		}
		outT2 = outT
	} else {
		outT = []reflect.Type{structTypeX(rand.New(&splitmix{s: uint64(rs + 1)}), out, outForm == FormPtr)}
		outT2 = []reflect.Type{structTypeX(rand.New(&splitmix{s: uint64(rs + 1)}), out, outForm != FormPtr)}
	}
	if r.Intn(2) == 0 {
		outT = append(outT, errT)
		outT2 = append(append([]reflect.Type{}, outT2...), errT)
	} else if outForm == FormPos && len(outT) > 0 && outT[len(outT)-1] == errT {
		expOut = expOut[:len(expOut)-1] // the "middle" error is in fact final
	}
	ft := reflect.FuncOf(inT, outT, false)
	res.Key = ft.String()
	res.NonTrivial = len(in)+len(expOut) >= 2
	det := map[string]interface{}{"signature": ft.String(), "want_in": xlabelsStr(in), "want_out": xlabelsStr(expOut)}
	defer func() {
		if p := recover(); p != nil {
			res.violate("C06", "panic/newfunc-"+crashKey(fmt.Sprint(p)), fmt.Sprintf("introspection panicked: %v", p), det)
		}
	}()
	fn := reflect.MakeFunc(ft, func(a []reflect.Value) []reflect.Value { return nil })
	f, err := am.NewFunc(fn.Interface())
	res.Evals++
	if err != nil {
		res.violate("C14", "accepted-shape-rejected", "NewFunc rejected a well-formed signature: "+err.Error(), det)
		return res
	}
	cmp := func(kind string, got []am.Value, exp []xLabel) {
		g := valuesToX(got)
		if !reflect.DeepEqual(g, exp) && !(len(g) == 0 && len(exp) == 0) {
			res.violate("C14", kind+"-values-differ", fmt.Sprintf("%s values = %s, declared %s", kind, xlabelsStr(g), xlabelsStr(exp)), det)
		}
		res.obs("values_compared", int64(len(exp)))
	}
	for pass := 0; pass < 2; pass++ {
		vi, vo := f.Input().Values(), f.Output().Values()
		cmp("input", vi, in)
		cmp("output", vo, expOut)
		// Values() hands out copies: whatever the caller does to them, the
		// next inspection reports the function's true values again
		for _, vs := range [][]am.Value{vi, vo} {
			for i := range vs {
				vs[i].Name, vs[i].Subtype, vs[i].Type = "scribbled", "zz", errT
			}
			for i, j := 0, len(vs)-1; i < j; i, j = i+1, j-1 {
				vs[i], vs[j] = vs[j], vs[i]
			}
		}
	}
	res.obs("reinspections_after_scribbling_over_returned_values", 1)
	if len(in) > 0 {
		// a call that is refused, and its error rendered in every way: the
		// function reports the same values afterwards
		func() {
			defer func() { recover() }()
			rr := f.Call(am.Named("nobody-wants-this", T5{ID: 1}), am.ConverterFunc(f))
			if e := rr.Err(); e != nil {
				_ = e.Error()
				_ = fmt.Sprintf("%v %+v %s", e, e, e)
			}
		}()
		cmp("input", f.Input().Values(), in)
		cmp("output", f.Output().Values(), expOut)
		res.obs("reinspections_after_rendering_an_error", 1)
	}
	lookups := func(kind string, vs *am.ValueSet, ls []xLabel, form int) {
		typeCount := map[reflect.Type]int{}
		for _, l := range ls {
			if l.Name == "" {
				typeCount[l.T]++
			}
		}
		for _, l := range ls {
			if l.Name != "" {
				if v := vs.Named(l.Name); v == nil || v.Type != l.T || v.Subtype != l.Sub || v.Name != l.Name {
					res.violate("C14", "named-lookup", fmt.Sprintf("%s.Named(%q) does not find %v", kind, l.Name, l), det)
				}
			} else {
				if v := vs.Typed(l.T); v == nil || v.Name != "" || v.Type != l.T || (typeCount[l.T] == 1 && v.Subtype != l.Sub) {
					res.violate("C14", "typed-lookup", fmt.Sprintf("%s.Typed(%v) does not find %v", kind, l.T, l), det)
				}
			}
			if v := vs.TypedSubtype(l.T, l.Sub); v == nil || v.Type != l.T || v.Subtype != l.Sub {
				res.violate("C14", "typedsubtype-lookup", fmt.Sprintf("%s.TypedSubtype(%v,%q) does not find a value", kind, l.T, l.Sub), det)
			}
			res.obs("lookups", 1)
		}
	}
	lookups("Input()", f.Input(), in, inForm)
	lookups("Output()", f.Output(), expOut, outForm)
	// pointer-struct form == struct form
	if inForm != FormPos || outForm != FormPos {
		ft2 := reflect.FuncOf(inT2, outT2, false)
		fn2 := reflect.MakeFunc(ft2, func(a []reflect.Value) []reflect.Value { return nil })
		f2, err := am.NewFunc(fn2.Interface())
		res.Evals++
		if err != nil {
			res.violate("C14", "accepted-shape-rejected", "NewFunc rejected the pointer/struct twin: "+err.Error(), det)
		} else {
			if !reflect.DeepEqual(valuesToX(f.Input().Values()), valuesToX(f2.Input().Values())) || !reflect.DeepEqual(valuesToX(f.Output().Values()), valuesToX(f2.Output().Values())) {
				res.violate("C14", "ptr-struct-differs", "struct and pointer-to-struct forms report different value lists", det)
			}
			res.obs("ptr_twin_compared", 1)
		}
	}
	res.Sample = det
	return res
}

func runC14Static(c *CaseCtx, r *rand.Rand) (res CaseResult) {
	k := (c.Idx / 16) % (len(staticCases) + 9)
	res.NonTrivial = true
	if k >= len(staticCases) {
		// non-function values
		vals := []interface{}{nil, 42, "str", struct{}{}, stMid{}, make(chan int), []int{1}, (*T0)(nil), (func(T0) T1)(nil)}
		x := vals[(k-len(staticCases))%len(vals)]
		res.Key = fmt.Sprintf("nonfunc %T", x)
		func() {
			defer func() {
				if p := recover(); p != nil {
					res.violate("C06", "panic/newfunc-nonfunc", fmt.Sprintf("NewFunc(%T) panicked: %v", x, p), nil)
				}
			}()
			f, err := am.NewFunc(x)
			res.Evals++
			if err == nil || f != nil {
				res.violate("C14", "nonfunc-accepted", fmt.Sprintf("NewFunc(%T) did not return an error", x), nil)
			}
		}()
		res.obs("rejections_checked", 1)
		res.Sample = map[string]interface{}{"nonfunc": fmt.Sprintf("%T", x)}
		return res
	}
	sc := staticCases[k]
	res.Key = "static " + sc.name
	det := map[string]interface{}{"static": sc.name, "signature": reflect.TypeOf(sc.fn).String()}
	defer func() {
		if p := recover(); p != nil {
			res.violate("C06", "panic/newfunc-"+sc.name, fmt.Sprintf("NewFunc panicked: %v", p), det)
		}
	}()
	f, err := am.NewFunc(sc.fn)
	res.Evals++
	if sc.reject {
		res.obs("rejections_checked", 1)
		if err == nil {
			res.violate("C14", "unsupported-shape-accepted/"+sc.name, "a signature the library cannot honour was accepted", det)
		}
		res.Sample = det
		return res
	}
	if err != nil {
		res.violate("C14", "accepted-shape-rejected", "NewFunc rejected "+sc.name+": "+err.Error(), det)
		return res
	}
	for _, vs := range [][]am.Value{f.Input().Values(), f.Output().Values()} {
		for i := range vs {
			vs[i].Name, vs[i].Subtype = "scribbled", "zz"
		}
	}
	gi, go_ := valuesToX(f.Input().Values()), valuesToX(f.Output().Values())
	if !reflect.DeepEqual(gi, sc.in) && !(len(gi) == 0 && len(sc.in) == 0) {
		res.violate("C14", "input-values-differ", fmt.Sprintf("input values = %s, declared %s", xlabelsStr(gi), xlabelsStr(sc.in)), det)
	}
	if !reflect.DeepEqual(go_, sc.out) && !(len(go_) == 0 && len(sc.out) == 0) {
		res.violate("C14", "output-values-differ", fmt.Sprintf("output values = %s, declared %s", xlabelsStr(go_), xlabelsStr(sc.out)), det)
	}
	res.obs("static_shapes_checked", 1)
	res.Sample = det
	return res
}

// ---------------------------------------------------------------------------
// C17 — Result accessors
// ---------------------------------------------------------------------------

func init() {
	register(&Monitor{
		ID:    "C17",
		Cases: func(t string) int { return tierN(t, 10000, 300000) },
		Rule: "G-result: functions returning k in 0..4 values drawn from the universe, with 'error' results at any position (nil or non-nil) and concrete error-implementing types in final position, optionally run-once (called twice) and optionally wrapped by Redefine (which appends an error result); " +
			"oracle: Len() = k minus one iff the declared final type is error; Out(i) is exactly the i-th returned value (provenance id, or the error value for a non-final error); Err() is the final error value (identity) or nil; " +
			"resolution failures (missing argument, nil option): Len()==0 and Err()!=nil. non-trivial = k >= 2 or an error-typed result in non-final position",
		Assumptions: []string{"values are compared by provenance id / pointer identity"},
		Run:         runC17,
	})
}

// c17Param is a parameter type outside the universe (nothing else makes it).
type c17Param struct{ N int64 }

type c17Out struct {
	am.Struct
	V T3 `argmapper:",typeOnly"`
	W T4 `argmapper:"w"`
}

// runC17Struct: a function returning a marker struct (by value or pointer),
// optionally run-once, is used both as a converter and called directly, in
// random order: the direct caller must always see exactly what the body
// returned (the same pointer), however often the result was adapted for
// converter use in between.
func runC17Struct(c *CaseCtx, r *rand.Rand) (res CaseResult) {
	if r.Intn(5) == 0 {
		// a function that returns a NIL pointer to its marker struct: the
		// direct caller gets exactly that nil pointer back
		withErr, once := r.Intn(2) == 0, r.Intn(2) == 0
		res.Key = fmt.Sprintf("nil-struct-pointer-result err=%v once=%v", withErr, once)
		res.NonTrivial = true
		det := map[string]interface{}{"results": res.Key}
		defer func() {
			if p := recover(); p != nil {
				res.violate("C06", "panic/result-"+crashKey(fmt.Sprint(p)), fmt.Sprintf("panicked: %v", p), det)
			}
		}()
		var fn interface{} = func() *c17Out { return nil }
		if withErr {
			fn = func() (*c17Out, error) { return nil, nil }
		}
		var opts []am.Arg
		if once {
			opts = append(opts, am.FuncOnce())
		}
		f, err := am.NewFunc(fn, opts...)
		if err != nil {
			res.violate("C14", "accepted-shape-rejected", "NewFunc rejected a struct-returning function: "+err.Error(), det)
			return res
		}
		callee := []*am.Func{f}
		if rf, err := f.Redefine(); err == nil && r.Intn(2) == 0 {
			callee = append(callee, rf)
		}
		for k := 0; k < 3; k++ {
			rr := pick(r, callee).Call()
			res.Evals++
			if rr.Err() != nil || rr.Len() != 1 {
				res.violate("C17", "len", fmt.Sprintf("Len() = %d, Err() = %v for a function returning one nil pointer", rr.Len(), rr.Err()), det)
				continue
			}
			if p, ok := rr.Out(0).(*c17Out); !ok || p != nil {
				res.violate("C17", "out", fmt.Sprintf("Out(0) = %T %v, the function returned a nil *c17Out", rr.Out(0), rr.Out(0)), det)
			}
		}
		res.obs("nil_struct_pointer_results", 1)
		res.Sample = det
		return res
	}
	ptr := r.Intn(3) > 0
	withErr := r.Intn(2) == 0
	once := r.Intn(2) == 0
	res.Key = fmt.Sprintf("struct-result ptr=%v err=%v once=%v", ptr, withErr, once)
	res.NonTrivial = true
	det := map[string]interface{}{"results": res.Key}
	defer func() {
		if p := recover(); p != nil {
			res.violate("C06", "panic/result-"+crashKey(fmt.Sprint(p)), fmt.Sprintf("panicked: %v", p), det)
		}
	}()
	execs := 0
	var last *c17Out
	mkv := func() *c17Out {
		execs++
		last = &c17Out{V: T3{ID: int64(1000 + execs)}, W: T4{ID: int64(2000 + execs)}}
		return last
	}
	var fn interface{}
	switch {
	case ptr && withErr:
		fn = func() (*c17Out, error) { return mkv(), nil }
	case ptr:
		fn = func() *c17Out { return mkv() }
	case withErr:
		fn = func() (c17Out, error) { return *mkv(), nil }
	default:
		fn = func() c17Out { return *mkv() }
	}
	var opts []am.Arg
	if once {
		opts = append(opts, am.FuncOnce())
	}
	f, err := am.NewFunc(fn, opts...)
	if err != nil {
		res.violate("C14", "accepted-shape-rejected", "NewFunc rejected a struct-returning function: "+err.Error(), det)
		return res
	}
	var seen int64
	consumer, _ := am.NewFunc(func(v T3) T5 { seen = v.ID; return T5{ID: v.ID} })
	for k := 0; k < 2+r.Intn(5); k++ {
		if r.Intn(2) == 0 {
			rr := consumer.Call(am.ConverterFunc(f))
			res.Evals++
			if rr.Err() != nil {
				res.violate("C05", "incomplete/provider", "consumer of a struct-returning provider failed: "+firstLine(errStr(rr.Err())), det)
			} else if last != nil && seen != last.V.ID && !once {
				res.violate("C01", "binding/stale", fmt.Sprintf("consumer observed #%d, the provider's last execution returned #%d", seen, last.V.ID), det)
			}
			res.obs("converter_uses", 1)
		} else {
			rr := f.Call()
			res.Evals++
			if rr.Err() != nil || rr.Len() != 1 {
				res.violate("C17", "len", fmt.Sprintf("struct-returning function: Len() = %d, Err() = %v", rr.Len(), rr.Err()), det)
				continue
			}
			if ptr {
				p, ok := rr.Out(0).(*c17Out)
				if !ok || p != last {
					res.violate("C17", "out", fmt.Sprintf("Out(0) is %T %v, the function returned the pointer %p", rr.Out(0), rr.Out(0), last), det)
				}
			} else {
				v, ok := rr.Out(0).(c17Out)
				if !ok || v.V.ID != last.V.ID || v.W.ID != last.W.ID {
					res.violate("C17", "out", fmt.Sprintf("Out(0) is %T %v, the function returned %v", rr.Out(0), rr.Out(0), *last), det)
				}
			}
			res.obs("direct_calls_of_struct_functions", 1)
		}
		if once && execs > 1 {
			res.violate("C11", "once-reexecuted", fmt.Sprintf("run-once function executed %d times", execs), det)
		}
	}
	res.Sample = det
	return res
}

func runC17(c *CaseCtx) (res CaseResult) {
	r := caseRand(c.Seed, "C17", c.Idx)
	if c.Idx%6 == 5 {
		return runC17Struct(c, r)
	}
	if c.Idx%12 == 4 {
		return runC17PanicFirst(c, r)
	}
	if c.Idx%12 == 2 {
		return runC17Histories(c, r)
	}
	k := r.Intn(5)
	var outT []reflect.Type
	var vals []reflect.Value
	var want []interface{}
	desc := ""
	for i := 0; i < k; i++ {
		switch r.Intn(5) {
		case 0:
			outT = append(outT, errT)
			if x := r.Intn(5); x == 0 {
				// a non-nil error interface holding a nil pointer is an error
				var e error = (*concErr)(nil)
				vals = append(vals, reflect.ValueOf(&e).Elem())
				want = append(want, e)
				desc += "error(typed-nil)! "
			} else if x <= 2 {
				e := errors.New(fmt.Sprint("e", i))
				vals = append(vals, reflect.ValueOf(&e).Elem())
				want = append(want, e)
				desc += "error! "
			} else {
				vals = append(vals, reflect.Zero(errT))
				want = append(want, nil)
				desc += "error(nil) "
			}
		case 1:
			outT = append(outT, concErrT)
			if r.Intn(2) == 0 {
				ce := &concErr{int64(c.Idx)}
				vals = append(vals, reflect.ValueOf(ce))
				want = append(want, ce)
				desc += "*concErr "
			} else {
				vals = append(vals, reflect.Zero(concErrT))
				want = append(want, (*concErr)(nil))
				desc += "*concErr(nil) "
			}
		default:
			ti := r.Intn(nTypes)
			conc := concreteFor(ti, r)
			outT = append(outT, types[ti])
			v := mkAs(ti, conc, int64(c.Idx*10+i+1))
			vals = append(vals, v)
			want = append(want, v.Interface())
			desc += typeName(ti) + " "
		}
	}
	once := r.Intn(3) == 0
	redef := r.Intn(4) == 0
	res.Key = fmt.Sprintf("%s once=%v redefine=%v", desc, once, redef)
	nonFinalErr := false
	for i := 0; i+1 < k; i++ {
		if outT[i] == errT {
			nonFinalErr = true
		}
	}
	res.NonTrivial = k >= 2 || nonFinalErr
	det := map[string]interface{}{"results": desc, "once": once, "redefine": redef}
	defer func() {
		if p := recover(); p != nil {
			res.violate("C06", "panic/result-"+crashKey(fmt.Sprint(p)), fmt.Sprintf("panicked: %v", p), det)
		}
	}()
	// a redefined function may have one parameter that only a converter can
	// make, so that a call of it can be made to fail INSIDE (see below)
	withParam := redef && !once && r.Intn(2) == 0
	var inT []reflect.Type
	if withParam {
		inT = []reflect.Type{reflect.TypeOf(c17Param{})}
	}
	ft := reflect.FuncOf(inT, outT, false)
	execs := 0
	fn := reflect.MakeFunc(ft, func([]reflect.Value) []reflect.Value { execs++; return vals })
	var opts []am.Arg
	if once {
		opts = append(opts, am.FuncOnce())
	}
	f, err := am.NewFunc(fn.Interface(), opts...)
	if err != nil {
		res.violate("C14", "accepted-shape-rejected", "NewFunc rejected a result list: "+err.Error(), det)
		return res
	}
	callee := f
	hasErr := k > 0 && outT[k-1] == errT
	var callArgs []am.Arg
	if redef && !withParam {
		rf, err := f.Redefine()
		if err != nil {
			res.violate("C08", "refused-although-permitted", "Redefine of a parameterless function failed: "+err.Error(), det)
			return res
		}
		callee = rf
	}
	if withParam {
		// the parameter is made from a T4 by a converter that fails on demand
		failNext := false
		convErr := errors.New("conversion failure inside the redefined function")
		conv := func(x T4) (c17Param, error) {
			if failNext {
				return c17Param{}, convErr
			}
			return c17Param{N: x.ID}, nil
		}
		rf, err := f.Redefine(am.Converter(conv), am.FilterInput(am.FilterType(types[4])))
		if err != nil {
			res.violate("C08", "refused-although-permitted", "Redefine through a converter failed: "+err.Error(), det)
			return res
		}
		callee = rf
		callArgs = []am.Arg{am.Typed(T4{ID: 3})}
		// history: one call of the redefined function fails inside; the
		// next ones are ordinary calls again
		failNext = true
		bad := callee.Call(callArgs...)
		failNext = false
		res.Evals++
		if bad.Err() != convErr {
			res.violate("C04", "error-not-verbatim", fmt.Sprintf("a converter failed inside the redefined function; Err() = %v", bad.Err()), det)
		}
		res.obs("redefined_functions_called_after_a_failing_call", 1)
	}
	reps := 1
	if once || withParam {
		reps = 3
	}
	for rep := 0; rep < reps; rep++ {
		rr := callee.Call(callArgs...)
		res.Evals++
		expLen := k
		if hasErr {
			expLen--
		}
		finalErrNonNil := hasErr && want[k-1] != nil
		if redef && finalErrNonNil {
			// the redefined function reports the error; other outputs are zero
			if rr.Err() != want[k-1] {
				res.violate("C17", "err-identity", "redefined function: Err() is not the function's final error value", det)
			}
			continue
		}
		if rr.Len() != expLen {
			res.violate("C17", "len", fmt.Sprintf("Len() = %d for %d results (final error: %v)", rr.Len(), k, hasErr), det)
			continue
		}
		for i := 0; i < expLen; i++ {
			got := rr.Out(i)
			if got != want[i] && !reflect.DeepEqual(got, want[i]) {
				res.violate("C17", "out", fmt.Sprintf("Out(%d) = %v, the function returned %v", i, got, want[i]), det)
			}
			res.obs("outputs_compared", 1)
		}
		if hasErr {
			if want[k-1] == nil && rr.Err() != nil {
				res.violate("C17", "err-not-nil", "final error was nil but Err() != nil", det)
			}
			if want[k-1] != nil && rr.Err() != want[k-1] {
				res.violate("C17", "err-identity", "Err() is not the function's final error value", det)
			}
		} else if rr.Err() != nil {
			res.violate("C17", "err-spurious", "no final error result but Err() != nil: "+firstLine(errStr(rr.Err())), det)
		}
	}
	if redef && !withParam {
		// the ORIGINAL function called directly after its redefined twin was
		// used: it still returns exactly what its body returned
		rr := f.Call()
		res.Evals++
		expLen := k
		if hasErr {
			expLen--
		}
		if rr.Len() != expLen {
			res.violate("C17", "len", fmt.Sprintf("direct call after calls of the redefined function: Len() = %d for %d results (final error: %v)", rr.Len(), k, hasErr), det)
		} else {
			for i := 0; i < expLen; i++ {
				if got := rr.Out(i); got != want[i] && !reflect.DeepEqual(got, want[i]) {
					res.violate("C17", "out", fmt.Sprintf("direct call after calls of the redefined function: Out(%d) = %v, the function returned %v", i, got, want[i]), det)
				}
			}
			if hasErr && rr.Err() != want[k-1] {
				res.violate("C17", "err-identity", fmt.Sprintf("direct call after calls of the redefined function: Err() = %v, the function returned %v", rr.Err(), want[k-1]), det)
			}
			if !hasErr && rr.Err() != nil {
				res.violate("C17", "err-spurious", "direct call after calls of the redefined function: Err() != nil", det)
			}
		}
		res.obs("direct_calls_after_redefined_calls", 1)
	}
	if once && execs > 1 {
		res.violate("C11", "once-reexecuted", fmt.Sprintf("run-once function executed %d times", execs), det)
	}
	// resolution failures
	g, _ := am.NewFunc(func(a T0) (T1, T2, error) { return T1{}, T2{}, nil })
	r1 := g.Call()
	if r1.Len() != 0 || r1.Err() == nil {
		res.violate("C17", "len-on-failure", fmt.Sprintf("missing argument: Len() = %d, Err() = %v", r1.Len(), r1.Err()), det)
	}
	r2 := g.Call(am.Typed(T0{ID: 1}), nil)
	if r2.Len() != 0 || r2.Err() == nil {
		res.violate("C17", "len-on-failure", fmt.Sprintf("nil option: Len() = %d, Err() = %v", r2.Len(), r2.Err()), det)
	}
	res.Evals += 2
	res.Sample = det
	return res
}

// ---------------------------------------------------------------------------
// C16 — options
// ---------------------------------------------------------------------------

func init() {
	register(&Monitor{
		ID:    "C16",
		Cases: func(t string) int { return tierN(t, 8000, 150000) },
		Rule: "exact-match targets (named parameters with distinct names, type-only parameters with distinct types, optional subtypes, struct or pointer-struct form); every name is re-cased at random on both sides (field names, tags, Named/NamedSubtype); " +
			"every key is supplied 1-3 times at random positions, split at random between NewFunc defaults and Call options, Typed(a,b) with one type counting as two occurrences, nil values sprinkled in; " +
			"oracle: a named parameter receives the live occurrence of its own key (last call occurrence if any, else last default), a type-only parameter the live occurrence of some key of exactly its type, a shadowed occurrence is never injected; " +
			"a nil option anywhere => Err()!=nil; P random permutations of options with distinct keys => identical injected ids. non-trivial = some key supplied more than once or split between defaults and call",
		Assumptions: []string{"concrete types only (exact matches); names from a pool of 4 with random casing"},
		Run:         runC16,
	})
}

// runC16NilFromSet: nil values are ignored also when they come out of a value
// set. A set (filled from a signature or a result) holds an interface-typed
// value whose content is nil; its Args() are passed after (or, as defaults,
// before) a real value for the same name: the real value is the one injected.
func runC16NilFromSet(c *CaseCtx, r *rand.Rand) (res CaseResult) {
	res.NonTrivial = true
	asDefault := r.Intn(2) == 0
	viaResult := r.Intn(2) == 0
	res.Key = fmt.Sprintf("nil-values-from-a-value-set default=%v result=%v", asDefault, viaResult)
	res.obs("family.nil-values-from-a-value-set", 1)
	det := map[string]interface{}{"case": res.Key}
	defer func() {
		if p := recover(); p != nil {
			res.violate("C06", "panic/"+crashKey(fmt.Sprint(p)), fmt.Sprintf("panicked: %v", p), det)
		}
	}()
	vals := []am.Value{{Name: "alpha", Type: types[tI0]}, {Type: errT}, {Name: "beta", Type: types[1]}}
	set, err := am.NewValueSet(vals)
	if err != nil {
		res.Skip = "newvalueset"
		return res
	}
	if viaResult {
		// the producer returns a nil I0, a nil error value and a real T1
		prod, _ := am.BuildFunc(nil, set, func(in, out *am.ValueSet) error {
			out.Named("beta").Value = reflect.ValueOf(T1{ID: 9})
			return nil
		})
		fresh, _ := am.NewValueSet(vals)
		if err := fresh.FromResult(prod.Call()); err != nil {
			res.Skip = "fromresult"
			return res
		}
		set = fresh
	} else {
		sig := set.Signature()
		sv := make([]reflect.Value, len(sig))
		for i, t := range sig {
			sv[i] = reflect.Zero(t)
		}
		if len(sig) == 1 && sig[0].Kind() == reflect.Struct {
			st := reflect.New(sig[0]).Elem()
			st.Field(3).Set(reflect.ValueOf(T1{ID: 9}))
			sv[0] = st
		}
		if err := set.FromSignature(sv); err != nil {
			res.Skip = "fromsignature"
			return res
		}
	}
	var gotA, gotB int64
	fn := func(in struct {
		am.Struct
		Alpha T0
		Beta  T1
	}) {
		gotA, gotB = in.Alpha.ID, in.Beta.ID
	}
	real := am.Named("alpha", T0{ID: 5})
	var rr am.Result
	if asDefault {
		// the set's values are the defaults, the real value comes at Call
		f, err := am.NewFunc(fn, set.Args()...)
		if err != nil {
			res.violate("C16", "nil-value-not-ignored", "NewFunc rejected default options that hold nil values: "+err.Error(), det)
			return res
		}
		rr = f.Call(real)
	} else {
		f, _ := am.NewFunc(fn, real)
		rr = f.Call(set.Args()...)
	}
	res.Evals++
	if rr.Err() != nil {
		res.violate("C16", "nil-value-not-ignored", "a nil value handed over through ValueSet.Args() made the call fail: "+firstLine(errStr(rr.Err())), det)
	} else if gotA != 5 || gotB != 9 {
		res.violate("C16", "nil-value-not-ignored", fmt.Sprintf("alpha=#%d beta=#%d, want #5 and #9: a nil value from a value set replaced a real one", gotA, gotB), det)
	}
	res.Sample = det
	return res
}

func runC16(c *CaseCtx) (res CaseResult) {
	r := caseRand(c.Seed, "C16", c.Idx)
	if c.Idx%31 == 4 {
		return runC16NilFromSet(c, r)
	}
	names := []string{"alpha", "beta", "gamma", "dx", "ärger", "émile"}
	var ls []xLabel
	usedN := map[string]bool{}
	usedT := map[int]bool{}
	for i := 1 + r.Intn(4); i > 0; i-- {
		ti := r.Intn(nConcrete)
		l := xLabel{T: types[ti]}
		if r.Intn(2) == 0 {
			l.Name = pick(r, names)
			if usedN[l.Name] {
				continue
			}
			usedN[l.Name] = true
		} else {
			if usedT[ti] {
				continue
			}
			usedT[ti] = true
		}
		if r.Intn(3) == 0 {
			l.Sub = "s"
		}
		ls = append(ls, l)
	}
	if len(ls) == 0 {
		res.Skip = "empty"
		return res
	}
	res.Key = xlabelsStr(ls)
	got := map[int]int64{}
	ptr := r.Intn(2) == 0
	st := structTypeX(r, ls, ptr)
	ft := reflect.FuncOf([]reflect.Type{st}, nil, false)
	ran := 0
	fn := reflect.MakeFunc(ft, func(a []reflect.Value) []reflect.Value {
		ran++
		sv := a[0]
		if sv.Kind() == reflect.Ptr {
			sv = sv.Elem()
		}
		for i := range ls {
			id, _ := idOf(sv.Field(i + 1))
			got[i] = id
		}
		return nil
	})
	type occ struct {
		key  int
		ids  []int64
		call bool
		arg  am.Arg
	}
	var occs []occ
	id := int64(0)
	multi := false
	for i, l := range ls {
		n := 1 + r.Intn(3)
		if n > 1 {
			multi = true
		}
		for ; n > 0; n-- {
			id++
			ti := typeIndex(l.T)
			v := mk(ti, id).Interface()
			o := occ{key: i, ids: []int64{id}, call: r.Intn(2) == 0}
			switch {
			case r.Intn(5) == 0:
				// a third spelling of the same key: Value.Arg() of a
				// hand-made Value (names in any casing)
				o.arg = (&am.Value{Name: recase(r, l.Name), Type: l.T, Subtype: l.Sub, Value: reflect.ValueOf(v)}).Arg()
				res.obs("occurrences_given_through_Value.Arg", 1)
			case l.Name != "" && l.Sub == "" && r.Intn(2) == 0:
				// both spellings of one key must behave as one key
				o.arg = am.Named(recase(r, l.Name), v)
			case l.Name != "":
				o.arg = am.NamedSubtype(recase(r, l.Name), v, l.Sub)
			case l.Sub == "" && r.Intn(3) == 0:
				// Typed(a, b): two occurrences, the second wins
				id++
				v2 := mk(ti, id).Interface()
				o.ids = append(o.ids, id)
				o.arg = am.Typed(v, nil, v2)
				multi = true
			case l.Sub == "" && r.Intn(2) == 0:
				o.arg = am.Typed(v)
			default:
				o.arg = am.TypedSubtype(v, l.Sub)
			}
			occs = append(occs, o)
		}
	}
	det := map[string]interface{}{"parameters": xlabelsStr(ls)}
	defer func() {
		if p := recover(); p != nil {
			res.violate("C06", "panic/options-"+crashKey(fmt.Sprint(p)), fmt.Sprintf("panicked: %v", p), det)
		}
	}()
	split := false
	run := func(perm bool) (map[int]int64, map[int]int64, error) {
		os := append([]occ{}, occs...)
		r.Shuffle(len(os), func(a, b int) { os[a], os[b] = os[b], os[a] })
		var defs, calls []am.Arg
		exp := map[int]int64{}
		for _, o := range os {
			if !o.call {
				defs = append(defs, o.arg)
				exp[o.key] = o.ids[len(o.ids)-1]
			}
		}
		for _, o := range os {
			if o.call {
				calls = append(calls, o.arg)
				exp[o.key] = o.ids[len(o.ids)-1]
			}
		}
		if len(defs) > 0 && len(calls) > 0 {
			split = true
		}
		if r.Intn(2) == 0 {
			pos := r.Intn(len(calls) + 1)
			nm := pick(r, names)
			// nil values through all four constructors (with and without a
			// subtype): each of them is ignored
			calls = append(calls[:pos:pos], append([]am.Arg{am.Named(nm, nil), am.Typed(nil), am.NamedSubtype(nm, nil, "s"), am.TypedSubtype(nil, "s"), am.NamedSubtype("", nil, "")}, calls[pos:]...)...)
		}
		f, err := am.NewFunc(fn.Interface(), defs...)
		if err != nil {
			return nil, nil, err
		}
		for k := range got {
			delete(got, k)
		}
		if r.Intn(4) == 0 {
			pollute(r)
		}
		rr := f.Call(calls...)
		res.Evals++
		if rr.Err() != nil {
			return nil, nil, rr.Err()
		}
		g := map[int]int64{}
		for k, v := range got {
			g[k] = v
		}
		return g, exp, nil
	}
	perms := tierReps(c.Tier, 4, 8)
	for p := 0; p < perms; p++ {
		g, exp, err := run(true)
		if err != nil {
			res.violate("C16", "exact-call-failed", "every parameter has an exactly keyed value but the call failed: "+firstLine(err.Error()), det)
			continue
		}
		live := map[int64]int{}
		for k, id := range exp {
			live[id] = k
		}
		for i := range ls {
			d := map[string]interface{}{"parameters": xlabelsStr(ls), "param": ls[i].String(), "got": g[i], "live": exp[i]}
			if ls[i].Name == "" {
				k, ok := live[g[i]]
				if !ok {
					res.violate("C16", "shadowed-occurrence-injected", fmt.Sprintf("type-only parameter %v received #%d which is not the live occurrence of any key", ls[i], g[i]), d)
				} else if ls[k].T != ls[i].T {
					res.violate("C01", "binding/type", fmt.Sprintf("type-only parameter %v received a value of another key's type", ls[i]), d)
				}
				continue
			}
			if g[i] != exp[i] {
				res.violate("C16", "wrong-occurrence", fmt.Sprintf("named parameter %v received #%d, the live occurrence of its key is #%d", ls[i], g[i], exp[i]), d)
			}
			res.obs("parameters_checked", 1)
		}
	}
	// permutation invariance with distinct keys: one occurrence per key, all at Call
	var single []am.Arg
	var grouped []interface{}
	wantID := map[int]int64{}
	for i, l := range ls {
		id++
		v := mk(typeIndex(l.T), id).Interface()
		wantID[i] = id
		if l.Name == "" && l.Sub == "" && c.Idx%4 == 2 {
			// all type-only values without subtype travel in ONE
			// Typed(a, b, ...) option (values of different types)
			grouped = append(grouped, v)
			continue
		}
		if l.Name != "" {
			single = append(single, am.NamedSubtype(recase(r, l.Name), v, l.Sub))
			if l.Sub != "" && c.Idx%3 == 1 {
				// one more value under the SAME name with ANOTHER subtype,
				// spelled in upper case: a key of its own that no parameter
				// asks for
				single = append(single, am.NamedSubtype(strings.ToUpper(l.Name), mk(typeIndex(l.T), -77).Interface(), l.Sub+"q"))
				res.obs("same_name_other_subtype_options", 1)
			}
		} else {
			single = append(single, am.TypedSubtype(v, l.Sub))
		}
	}
	if len(grouped) > 0 {
		single = append(single, am.Typed(grouped...))
		res.obs("several_values_in_one_Typed_option", 1)
	}
	if c.Idx%3 == 2 && len(ls) > 0 {
		// an UNUSED converter that was itself made with default values for
		// the keys of this call: a converter's own defaults are its own
		var cdef []am.Arg
		for _, l := range ls {
			v := mk(typeIndex(l.T), -88).Interface()
			if l.Name != "" {
				cdef = append(cdef, am.NamedSubtype(l.Name, v, l.Sub))
			} else {
				cdef = append(cdef, am.TypedSubtype(v, l.Sub))
			}
		}
		if cv, err := am.NewFunc(func(in struct {
			am.Struct
			Zzunused xCycNode
		}) *xCycNode {
			return nil
		}, cdef...); err == nil {
			single = append(single, am.ConverterFunc(cv))
			res.obs("unused_converters_with_defaults_of_their_own", 1)
		}
	}
	f, err := am.NewFunc(fn.Interface())
	if err == nil {
		var first map[int]int64
		for p := 0; p < perms; p++ {
			r.Shuffle(len(single), func(a, b int) { single[a], single[b] = single[b], single[a] })
			for k := range got {
				delete(got, k)
			}
			rr := f.Call(single...)
			res.Evals++
			if rr.Err() != nil {
				res.violate("C16", "exact-call-failed", "distinct-key call failed: "+firstLine(rr.Err().Error()), det)
				continue
			}
			// a type-only parameter that shares its type with another key may
			// legitimately receive either value (the choice follows map order,
			// not option order), so only unambiguous parameters are compared
			cur := map[int]int64{}
			for k, v := range got {
				amb := false
				if ls[k].Name == "" {
					for j := range ls {
						if j != k && ls[j].T == ls[k].T {
							amb = true
						}
					}
				}
				if !amb {
					cur[k] = v
				}
			}
			if first == nil {
				first = cur
			} else if !reflect.DeepEqual(first, cur) {
				res.violate("C16", "permutation-changes-injection", fmt.Sprintf("permuting options with distinct keys changed the injected ids: %v vs %v", first, cur), det)
			}
			res.obs("permutations_compared", 1)
		}
		// nil option => error, target not run
		before := ran
		pos := r.Intn(len(single) + 1)
		withNil := append(single[:pos:pos], append([]am.Arg{nil}, single[pos:]...)...)
		rr := f.Call(withNil...)
		res.Evals++
		if rr.Err() == nil {
			res.violate("C16", "nil-option-accepted", "a nil option did not yield an error result", det)
		}
		if ran != before {
			res.violate("C16", "nil-option-target-ran", "the target ran despite a nil option", det)
		}
		// nil option among the defaults
		if fnil, err := am.NewFunc(fn.Interface(), nil); err == nil {
			if rr := fnil.Call(single...); rr.Err() == nil {
				res.violate("C16", "nil-default-accepted", "a nil default option was accepted by NewFunc and by Call", det)
			}
		}
		// ... and for a function WITHOUT inputs (nothing to resolve is no
		// reason not to look at the options)
		{
			ran0 := 0
			if f0, err := am.NewFunc(func() T0 { ran0++; return T0{ID: 1} }); err == nil {
				if r0 := f0.Call(nil); r0.Err() == nil || ran0 != 0 {
					res.violate("C16", "nil-option-accepted", fmt.Sprintf("a nil option given to a function without inputs: Err()=%v, executed %d times", r0.Err(), ran0), det)
				}
				res.Evals++
			}
		}
		// the same for a run-once function that has already executed: its
		// memoized result does not make a nil option acceptable
		if c.Idx%3 == 0 {
			if fonce, err := am.NewFunc(fn.Interface(), am.FuncOnce()); err == nil {
				if r1 := fonce.Call(single...); r1.Err() == nil {
					res.Evals++
					if r2 := fonce.Call(withNil...); r2.Err() == nil {
						res.violate("C16", "nil-option-accepted", "a nil option did not yield an error result (run-once function that has already executed)", det)
					}
					res.obs("nil_option_after_memoized_execution", 1)
				}
			}
		}
	}
	// defaults taken from ONE caller-owned list (prefixes of a slice with
	// spare capacity): calls on one Func must not disturb the defaults of
	// another Func, nor the caller's list
	{
		all := make([]am.Arg, 0, 2*len(ls)+8)
		base := map[int]int64{}
		for i, l := range ls {
			id++
			base[i] = id
			v := mk(typeIndex(l.T), id).Interface()
			if l.Name != "" {
				all = append(all, am.NamedSubtype(recase(r, l.Name), v, l.Sub))
			} else {
				all = append(all, am.TypedSubtype(v, l.Sub))
			}
		}
		k := r.Intn(len(all) + 1)
		f1, err1 := am.NewFunc(fn.Interface(), all[:k]...)
		f2, err2 := am.NewFunc(fn.Interface(), all...)
		if r.Intn(2) == 0 {
			// the caller reuses its list afterwards: the functions keep the
			// defaults they were constructed with
			for i := range all {
				all[i] = am.Named("overwritten", T5{ID: -7})
			}
			res.obs("default_lists_overwritten_after_construction", 1)
		}
		if err1 == nil && err2 == nil {
			// f1 is called with overrides for everything
			var over []am.Arg
			for _, l := range ls {
				id++
				v := mk(typeIndex(l.T), id).Interface()
				if l.Name != "" {
					over = append(over, am.NamedSubtype(recase(r, l.Name), v, l.Sub))
				} else {
					over = append(over, am.TypedSubtype(v, l.Sub))
				}
			}
			for rep := 0; rep < 2; rep++ {
				f1.Call(over...)
				res.Evals++
			}
			for kk := range got {
				delete(got, kk)
			}
			rr := f2.Call()
			res.Evals++
			if rr.Err() != nil {
				res.violate("C16", "defaults-disturbed", "a Func whose defaults satisfy every parameter failed after another Func (sharing the caller's option list) was called: "+firstLine(rr.Err().Error()), det)
			} else {
				for i := range ls {
					amb := false
					if ls[i].Name == "" {
						for j := range ls {
							if j != i && ls[j].T == ls[i].T {
								amb = true
							}
						}
					}
					if !amb && got[i] != base[i] {
						res.violate("C16", "defaults-disturbed", fmt.Sprintf("parameter %v received #%d instead of its default #%d after a call on another Func sharing the caller's option list", ls[i], got[i], base[i]), det)
					}
				}
			}
			res.obs("shared_default_lists_checked", 1)
			// the same Func: a call that overrides every default, then a call
			// that overrides nothing — the defaults apply again
			amb := func(i int) bool {
				if ls[i].Name != "" {
					return false
				}
				for j := range ls {
					if j != i && ls[j].T == ls[i].T {
						return true
					}
				}
				return false
			}
			var over2 []am.Arg
			want2 := map[int]int64{}
			for i, l := range ls {
				id++
				want2[i] = id
				v := mk(typeIndex(l.T), id).Interface()
				if l.Name != "" {
					over2 = append(over2, am.NamedSubtype(recase(r, l.Name), v, l.Sub))
				} else {
					over2 = append(over2, am.TypedSubtype(v, l.Sub))
				}
			}
			for kk := range got {
				delete(got, kk)
			}
			if rr := f2.Call(over2...); rr.Err() == nil {
				for i := range ls {
					if !amb(i) && got[i] != want2[i] {
						res.violate("C16", "call-option-does-not-override-default", fmt.Sprintf("parameter %v received #%d, the call option carries #%d", ls[i], got[i], want2[i]), det)
					}
				}
			}
			for kk := range got {
				delete(got, kk)
			}
			rr = f2.Call()
			res.Evals += 2
			if rr.Err() != nil {
				res.violate("C16", "defaults-disturbed", "the defaults satisfy every parameter, but after a call that overrode them the call without options fails: "+firstLine(rr.Err().Error()), det)
			} else {
				for i := range ls {
					if !amb(i) && got[i] != base[i] {
						res.violate("C16", "defaults-disturbed", fmt.Sprintf("parameter %v received #%d instead of its default #%d: the override given to an earlier call of the same Func persists", ls[i], got[i], base[i]), det)
					}
				}
			}
			res.obs("override_then_default_histories", 1)
		}
	}
	res.NonTrivial = multi || split
	res.Sample = det
	return res
}

// runC17PanicFirst: fault injection — the first execution of a function
// panics (the caller recovers); later calls must behave like calls: a result
// with Err()==nil has exactly the function's results. For a run-once function
// the panicking execution produced no result to remember.
func runC17PanicFirst(c *CaseCtx, r *rand.Rand) (res CaseResult) {
	once := r.Intn(3) > 0
	k := 1 + r.Intn(3)
	withErr := r.Intn(2) == 0
	asConv := r.Intn(2) == 0
	res.Key = fmt.Sprintf("panic-first once=%v k=%d err=%v conv=%v", once, k, withErr, asConv)
	res.NonTrivial = true
	det := map[string]interface{}{"results": res.Key}
	var outT []reflect.Type
	for i := 0; i < k; i++ {
		outT = append(outT, types[i])
	}
	if withErr {
		outT = append(outT, errT)
	}
	execs := 0
	fn := reflect.MakeFunc(reflect.FuncOf(nil, outT, false), func([]reflect.Value) []reflect.Value {
		execs++
		if execs == 1 {
			panic("injected fault in the first execution")
		}
		var out []reflect.Value
		for i := 0; i < k; i++ {
			out = append(out, mk(i, int64(100*execs+i+1)))
		}
		if withErr {
			out = append(out, reflect.Zero(errT))
		}
		return out
	})
	var opts []am.Arg
	if once {
		opts = append(opts, am.FuncOnce())
	}
	f, err := am.NewFunc(fn.Interface(), opts...)
	if err != nil {
		res.violate("C14", "accepted-shape-rejected", err.Error(), det)
		return res
	}
	consumer, _ := am.NewFunc(func(v T0) T5 { return T5{ID: v.ID} })
	call := func() (o Outcome) {
		if asConv {
			return DoCall(nil, consumer, []am.Arg{am.ConverterFunc(f)})
		}
		return DoCall(nil, f, nil)
	}
	o1 := call()
	res.Evals++
	if o1.Class != ClsPanic {
		res.obs("first_execution_did_not_panic", 1)
	}
	for rep := 0; rep < 3; rep++ {
		o := call()
		res.Evals++
		if o.Class == ClsPanic {
			res.violate("C06", "panic/after-recovered-panic", "a call after a recovered panic of the function's first execution panicked inside the library: "+o.Panic, det)
			break
		}
		if o.Err != nil {
			res.violate("C17", "err-spurious", "a call after a recovered panic failed: "+firstLine(errStr(o.Err)), det)
			break
		}
		if asConv {
			if id, _ := idOfIface(o.Res.Out(0)); o.Res.Len() != 1 || id <= 0 {
				res.violate("C17", "out", fmt.Sprintf("consumer of the function returned Len()=%d value #%d", o.Res.Len(), id), det)
			}
		} else {
			if o.Res.Len() != k {
				res.violate("C17", "len", fmt.Sprintf("Err()==nil but Len() = %d for a function returning %d values", o.Res.Len(), k), det)
				break
			}
			for i := 0; i < k; i++ {
				if id, _ := idOfIface(o.Res.Out(i)); id <= 0 {
					res.violate("C17", "out", fmt.Sprintf("Out(%d) carries #%d, not a value the function returned", i, id), det)
				}
			}
		}
		res.obs("calls_after_injected_panic", 1)
	}
	res.Sample = det
	return res
}

// runC17Histories: (a) a function built with BuildFunc over the positional
// output set of a function returning (k values, error, error): the set's last
// value has type error and is an ORDINARY output of the built function (an
// error that is not in final position); (b) a run-once function used as a
// target: after a successful first call, a call whose resolution fails has
// length 0 and a non-nil error, memoized result or not.
func runC17Histories(c *CaseCtx, r *rand.Rand) (res CaseResult) {
	res.NonTrivial = true
	defer func() {
		if p := recover(); p != nil {
			res.violate("C06", "panic/result-"+crashKey(fmt.Sprint(p)), fmt.Sprintf("panicked: %v", p), map[string]interface{}{"case": res.Key})
		}
	}()
	if (c.Idx/12)%8 == 4 {
		// a function built over a set made with NewValueSet returns ONE
		// struct; its interface-typed field holds what the callback stored --
		// a typed nil pointer is a non-nil interface value, a zero struct
		// value is that value
		res.Key = "built-over-a-new-value-set-with-typed-nil-output"
		det := map[string]interface{}{"case": res.Key}
		set, err := am.NewValueSet([]am.Value{{Name: "cause", Type: errT}, {Name: "n", Type: types[0]}, {Type: types[1]}})
		if err != nil {
			res.Skip = "newvalueset"
			return res
		}
		built, err := am.BuildFunc(nil, set, func(in, out *am.ValueSet) error {
			out.Named("cause").Value = reflect.ValueOf((*concErr)(nil))
			out.Named("n").Value = reflect.ValueOf(T0{})
			out.Typed(types[1]).Value = reflect.ValueOf(T1{ID: 31})
			return nil
		})
		if err != nil {
			res.violate("C15", "build-rejected", "BuildFunc rejected a value set: "+err.Error(), det)
			return res
		}
		rr := built.Call()
		res.Evals++
		if rr.Err() != nil || rr.Len() != 1 {
			res.violate("C17", "len", fmt.Sprintf("Len() = %d, Err() = %v for a built function returning one struct", rr.Len(), rr.Err()), det)
			return res
		}
		sv := reflect.ValueOf(rr.Out(0))
		found := false
		for i := 0; sv.Kind() == reflect.Struct && i < sv.NumField(); i++ {
			if sv.Field(i).Type() == errT {
				found = true
				if p, ok := sv.Field(i).Interface().(*concErr); !ok || p != nil {
					res.violate("C17", "out", fmt.Sprintf("the error-typed field of Out(0) holds %#v, the callback stored a typed nil pointer (*concErr)(nil)", sv.Field(i).Interface()), det)
				}
			}
			if sv.Field(i).Type() == types[1] {
				if id, _ := idOf(sv.Field(i)); id != 31 {
					res.violate("C17", "out", fmt.Sprintf("the T1 field of Out(0) carries #%d, want #31", id), det)
				}
			}
		}
		if !found {
			res.violate("C17", "out", fmt.Sprintf("Out(0) = %T has no error-typed field", rr.Out(0)), det)
		}
		res.obs("typed_nil_pointer_outputs", 1)
		res.Sample = det
		return res
	}
	if (c.Idx/12)%8 == 6 {
		// functions of different result shapes made with ONE FuncOnce()
		// option value: each Result is that function's own
		res.Key = "functions-sharing-a-FuncOnce-option-value"
		det := map[string]interface{}{"case": res.Key}
		boom := errors.New("second function fails")
		fns := []interface{}{
			func() (T0, T1) { return T0{ID: 61}, T1{ID: 62} },
			func() (T2, error) { return T2{ID: 63}, boom },
			func() T3 { return T3{ID: 64} },
		}
		var fl []*am.Func
		if r.Intn(2) == 0 {
			fl, _ = am.NewFuncList(fns, am.FuncOnce())
		} else {
			once := am.FuncOnce()
			for _, fn := range fns {
				if f, err := am.NewFunc(fn, once); err == nil {
					fl = append(fl, f)
				}
			}
		}
		if len(fl) != 3 {
			res.Skip = "newfunc"
			return res
		}
		order := r.Perm(3)
		for _, i := range append(order, order...) {
			rr := fl[i].Call()
			res.Evals++
			switch i {
			case 0:
				a, _ := idOfIface(safeOut(rr, 0))
				b, _ := idOfIface(safeOut(rr, 1))
				if rr.Err() != nil || rr.Len() != 2 || a != 61 || b != 62 {
					res.violate("C17", "out", fmt.Sprintf("func() (T0, T1) sharing a FuncOnce option value: Len()=%d Err()=%v outputs #%d #%d, want 2, nil, #61 #62", rr.Len(), rr.Err(), a, b), det)
				}
			case 1:
				if rr.Err() != boom {
					res.violate("C17", "err-identity", fmt.Sprintf("func() (T2, error) sharing a FuncOnce option value: Err() = %v, the function returned %v", rr.Err(), boom), det)
				}
			case 2:
				a, _ := idOfIface(safeOut(rr, 0))
				if rr.Err() != nil || rr.Len() != 1 || a != 64 {
					res.violate("C17", "out", fmt.Sprintf("func() T3 sharing a FuncOnce option value: Len()=%d Err()=%v output #%d, want 1, nil, #64", rr.Len(), rr.Err(), a), det)
				}
			}
		}
		res.obs("functions_sharing_an_option_value", 1)
		res.Sample = det
		return res
	}
	if (c.Idx/12)%8 == 7 {
		// a function built with ONE value set as its input AND output (pass
		// through / adjust in place): the results are what the callback left
		// in the set
		res.Key = "built-function-with-one-set-as-input-and-output"
		det := map[string]interface{}{"case": res.Key}
		set, err := am.NewValueSet([]am.Value{{Name: "n", Type: types[0]}, {Type: types[1]}})
		if err != nil {
			res.Skip = "newvalueset"
			return res
		}
		adjust := r.Intn(2) == 0
		built, err := am.BuildFunc(set, set, func(in, out *am.ValueSet) error {
			if adjust {
				id, _ := idOf(in.Named("n").Value)
				out.Named("n").Value = reflect.ValueOf(T0{ID: id + 1000})
			}
			return nil
		})
		if err != nil {
			res.violate("C15", "build-rejected", "BuildFunc rejected one set used as input and output: "+err.Error(), det)
			return res
		}
		for k := int64(1); k <= 3; k++ {
			rr := built.Call(am.Named("n", T0{ID: k}), am.Typed(T1{ID: k + 10}))
			res.Evals++
			if rr.Err() != nil || rr.Len() != 1 {
				res.violate("C17", "len", fmt.Sprintf("Len() = %d, Err() = %v for a built function returning one struct", rr.Len(), rr.Err()), det)
				break
			}
			sv := reflect.ValueOf(rr.Out(0))
			wantN := k
			if adjust {
				wantN += 1000
			}
			for i := 0; sv.Kind() == reflect.Struct && i < sv.NumField(); i++ {
				switch sv.Field(i).Type() {
				case types[0]:
					if id, _ := idOf(sv.Field(i)); id != wantN {
						res.violate("C17", "out", fmt.Sprintf("call %d: field n of Out(0) carries #%d, the callback left #%d in the set", k, id, wantN), det)
					}
				case types[1]:
					if id, _ := idOf(sv.Field(i)); id != k+10 {
						res.violate("C17", "out", fmt.Sprintf("call %d: the T1 field of Out(0) carries #%d, the callback left #%d in the set", k, id, k+10), det)
					}
				}
			}
		}
		res.obs("built_functions_over_one_set", 1)
		res.Sample = det
		return res
	}
	if (c.Idx/12)%8 == 5 {
		// two functions built over separately made value sets of ONE shape: A
		// is called first and sets every output; B's callback then sets
		// nothing (or calls A as a helper after setting its own outputs) --
		// B's results are B's own
		nested := r.Intn(2) == 0
		res.Key = fmt.Sprintf("two-built-functions-over-same-shaped-sets nested=%v", nested)
		det := map[string]interface{}{"case": res.Key}
		mkSet := func() *am.ValueSet {
			s, _ := am.NewValueSet([]am.Value{{Name: "n", Type: types[0]}, {Type: types[1]}})
			return s
		}
		fa, errA := am.BuildFunc(nil, mkSet(), func(in, out *am.ValueSet) error {
			out.Named("n").Value = reflect.ValueOf(T0{ID: 41})
			out.Typed(types[1]).Value = reflect.ValueOf(T1{ID: 42})
			return nil
		})
		fb, errB := am.BuildFunc(nil, mkSet(), func(in, out *am.ValueSet) error {
			if nested {
				out.Named("n").Value = reflect.ValueOf(T0{ID: 51})
				out.Typed(types[1]).Value = reflect.ValueOf(T1{ID: 52})
				fa.Call()
			}
			return nil
		})
		if errA != nil || errB != nil {
			res.Skip = "buildfunc"
			return res
		}
		ra := fa.Call()
		rb := fb.Call()
		res.Evals += 2
		ids := func(rr am.Result) (int64, int64) {
			if rr.Err() != nil || rr.Len() != 1 {
				return -1, -1
			}
			sv := reflect.ValueOf(rr.Out(0))
			var a, b int64 = -1, -1
			for i := 0; sv.Kind() == reflect.Struct && i < sv.NumField(); i++ {
				switch sv.Field(i).Type() {
				case types[0]:
					a, _ = idOf(sv.Field(i))
				case types[1]:
					b, _ = idOf(sv.Field(i))
				}
			}
			return a, b
		}
		if a, b := ids(ra); a != 41 || b != 42 {
			res.violate("C17", "out", fmt.Sprintf("function A returned #%d, #%d, its callback produced #41, #42", a, b), det)
		}
		wa, wb := int64(0), int64(0)
		if nested {
			wa, wb = 51, 52
		}
		if a, b := ids(rb); a != wa || b != wb {
			res.violate("C17", "out", fmt.Sprintf("function B returned #%d, #%d, its callback produced #%d, #%d (A's are #41, #42)", a, b, wa, wb), det)
		}
		res.obs("same_shaped_built_functions", 1)
		res.Sample = det
		return res
	}
	if r.Intn(2) == 0 {
		k := r.Intn(3)
		res.Key = fmt.Sprintf("built-over-positional-set-ending-in-error k=%d", k)
		det := map[string]interface{}{"case": res.Key}
		outT := []reflect.Type{}
		for i := 0; i < k; i++ {
			outT = append(outT, types[i])
		}
		outT = append(outT, errT, errT)
		proto := reflect.MakeFunc(reflect.FuncOf(nil, outT, false), func([]reflect.Value) []reflect.Value {
			out := make([]reflect.Value, len(outT))
			for i, t := range outT {
				out[i] = reflect.Zero(t)
			}
			return out
		})
		f0, err := am.NewFunc(proto.Interface())
		if err != nil {
			res.violate("C14", "accepted-shape-rejected", "NewFunc rejected func() (..., error, error): "+err.Error(), det)
			return res
		}
		set := f0.Output()
		if n := len(set.Values()); n != k+1 {
			res.violate("C14", "output-values-differ", fmt.Sprintf("Output() of a function returning %d values, error, error lists %d values, want %d", k, n, k+1), det)
			return res
		}
		warn := errors.New("a warning value, not a failure")
		var cbErr error
		if r.Intn(3) == 0 {
			cbErr = errors.New("callback failure")
		}
		warnNil := r.Intn(3) == 0
		// a third form of the error-typed output: a typed nil pointer, which
		// is a non-nil error value
		warnTypedNil := !warnNil && (c.Idx/12)%3 == 1
		built, err := am.BuildFunc(nil, set, func(in, out *am.ValueSet) error {
			for i := 0; i < k; i++ {
				out.Typed(types[i]).Value = mk(i, int64(100+i))
			}
			if warnTypedNil {
				out.Typed(errT).Value = reflect.ValueOf((*concErr)(nil))
			} else if !warnNil {
				out.Typed(errT).Value = reflect.ValueOf(&warn).Elem()
			} else {
				out.Typed(errT).Value = reflect.Zero(errT)
			}
			return cbErr
		})
		if err != nil {
			res.violate("C15", "build-rejected", "BuildFunc rejected a function's own output set: "+err.Error(), det)
			return res
		}
		rr := built.Call()
		res.Evals++
		if rr.Err() != cbErr {
			res.violate("C17", "err-identity", fmt.Sprintf("Err() = %v, the callback returned %v (the set's error-typed value is an ordinary output)", rr.Err(), cbErr), det)
		}
		if cbErr == nil {
			if rr.Len() != k+1 {
				res.violate("C17", "len", fmt.Sprintf("Len() = %d, the built function has %d ordinary outputs", rr.Len(), k+1), det)
			} else {
				for i := 0; i < k; i++ {
					if id, _ := idOfIface(rr.Out(i)); id != int64(100+i) {
						res.violate("C17", "out", fmt.Sprintf("Out(%d) carries #%d, want #%d", i, id, 100+i), det)
					}
				}
				last := rr.Out(k)
				if warnTypedNil {
					if p, ok := last.(*concErr); !ok || p != nil {
						res.violate("C17", "out", fmt.Sprintf("Out(%d) = %#v, the callback produced a typed nil pointer (*concErr)(nil) for the error-typed output", k, last), det)
					}
					res.obs("typed_nil_pointer_outputs", 1)
				} else if (!warnNil && last != error(warn)) || (warnNil && last != nil) {
					res.violate("C17", "out", fmt.Sprintf("Out(%d) = %v, want the error-typed ordinary output %v", k, last, map[bool]interface{}{false: warn, true: nil}[warnNil]), det)
				}
			}
		}
		res.obs("built_over_set_ending_in_error", 1)
		res.Sample = det
		return res
	}
	// (b)
	k := 1 + r.Intn(2)
	res.Key = fmt.Sprintf("run-once-target-then-unsatisfiable-call k=%d", k)
	det := map[string]interface{}{"case": res.Key}
	execs := 0
	outT := []reflect.Type{}
	for i := 0; i < k; i++ {
		outT = append(outT, types[1+i])
	}
	if r.Intn(2) == 0 {
		outT = append(outT, errT)
	}
	fn := reflect.MakeFunc(reflect.FuncOf([]reflect.Type{types[0]}, outT, false), func(a []reflect.Value) []reflect.Value {
		execs++
		out := make([]reflect.Value, len(outT))
		for i, t := range outT {
			out[i] = reflect.Zero(t)
			if t != errT {
				out[i] = mk(1+i, int64(200+i))
			}
		}
		return out
	})
	f, err := am.NewFunc(fn.Interface(), am.FuncOnce())
	if err != nil {
		res.Skip = "newfunc"
		return res
	}
	first := f.Call(am.Typed(mk(0, 1).Interface()))
	res.Evals++
	if first.Err() != nil || first.Len() != k || execs != 1 {
		res.violate("C17", "len", fmt.Sprintf("first call of the run-once target: Err()=%v Len()=%d executions=%d", first.Err(), first.Len(), execs), det)
		return res
	}
	var bad am.Result
	why := ""
	switch r.Intn(3) {
	case 0:
		why = "missing argument"
		bad = f.Call()
	case 1:
		why = "nil option"
		bad = f.Call(am.Typed(mk(0, 2).Interface()), nil)
	default:
		why = "failing converter on the only path"
		convErr := errors.New("converter failure")
		bad = f.Call(am.Typed(mk(5, 3).Interface()), am.Converter(func(T5) (T0, error) { return T0{}, convErr }))
		if bad.Err() != convErr {
			res.violate("C04", "error-not-verbatim", fmt.Sprintf("the converter on the only path failed, Err() = %v", bad.Err()), det)
		}
	}
	res.Evals++
	if bad.Err() == nil || bad.Len() != 0 {
		res.violate("C17", "len-on-failure", fmt.Sprintf("resolution fails (%s) on an already executed run-once target: Err()=%v Len()=%d, want a non-nil error and length 0", why, bad.Err(), bad.Len()), det)
	}
	if execs != 1 {
		res.violate("C11", "once-reexecuted", fmt.Sprintf("run-once target executed %d times", execs), det)
	}
	again := f.Call(am.Typed(mk(0, 4).Interface()))
	res.Evals++
	if again.Err() != nil || again.Len() != k {
		res.violate("C17", "len", fmt.Sprintf("satisfiable call after the failed one: Err()=%v Len()=%d", again.Err(), again.Len()), det)
	}
	res.obs("run_once_target_then_unsatisfiable_call", 1)
	res.Sample = det
	return res
}

// safeOut returns Out(i) or nil when the result has fewer values.
func safeOut(r am.Result, i int) interface{} {
	if i >= r.Len() {
		return nil
	}
	return r.Out(i)
}
