package main

import (
	"sync/atomic"

	am "github.com/hashicorp/go-argmapper"
)

// The library's verif hooks are process-global. The harness registers two
// dispatchers once per process; each case may install its own callbacks
// (before it starts goroutines) and they are cleared when the case ends.

var casePointHook func(point string, f *am.Func)
var caseGraphHook func(point string, g, aux *am.VerifGraph, a, b am.VerifVertex, edgeTo map[interface{}]am.VerifVertex)

var hooksInstalled bool

// graphSteps counts iterations of the graph package's main loops during the
// current case (all goroutines). Exceeding stepLimit is reported as a
// bounded-progress violation: the generated graphs have at most a few hundred
// vertices, a case performs a few hundred searches of a few hundred steps.
var graphSteps int64

const stepLimit = 5_000_000

func installHooks() {
	if hooksInstalled {
		return
	}
	hooksInstalled = true
	am.VerifSetPointHook(func(p string, f *am.Func) {
		if p == "struct.deref" {
			// one step of the loop that unwraps pointer types while a
			// signature is analysed: counts like a graph-loop step
			if atomic.AddInt64(&graphSteps, 1) == stepLimit {
				panic(boundExceeded{"step bound exceeded while unwrapping a pointer type (non-terminating signature analysis)"})
			}
			return
		}
		if h := casePointHook; h != nil {
			h(p, f)
		}
	})
	am.VerifSetStepHook(func() {
		if atomic.AddInt64(&graphSteps, 1) == stepLimit {
			panic(boundExceeded{"graph-loop step bound exceeded (non-terminating search or path reconstruction)"})
		}
	})
	am.VerifSetGraphHook(func(p string, g, aux *am.VerifGraph, a, b am.VerifVertex, edgeTo map[interface{}]am.VerifVertex) {
		if h := caseGraphHook; h != nil {
			h(p, g, aux, a, b, edgeTo)
		}
	})
}

func clearCaseHooks() {
	casePointHook = nil
	caseGraphHook = nil
	atomic.StoreInt64(&graphSteps, 0)
}

// depthMeter counts reachTarget nesting and entries (sequential cases only).
type depthMeter struct {
	depth, maxDepth, entries int
	limitDepth, limitEntries int
	tripped                  string
}

func (d *depthMeter) hook(p string, f *am.Func) {
	switch p {
	case "reach.enter":
		d.depth++
		d.entries++
		if d.depth > d.maxDepth {
			d.maxDepth = d.depth
		}
		if d.limitDepth > 0 && d.depth > d.limitDepth && d.tripped == "" {
			d.tripped = "depth"
			panic(boundExceeded{"reachTarget nesting depth bound exceeded"})
		}
		if d.limitEntries > 0 && d.entries > d.limitEntries && d.tripped == "" {
			d.tripped = "entries"
			panic(boundExceeded{"reachTarget entry bound exceeded"})
		}
	case "reach.exit":
		d.depth--
	}
}

func (d *depthMeter) reset() { d.depth, d.maxDepth, d.entries, d.tripped = 0, 0, 0, "" }

type boundExceeded struct{ msg string }

func (b boundExceeded) String() string { return b.msg }
