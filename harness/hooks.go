package main

import (
	am "github.com/hashicorp/go-argmapper"
)

// The library's verif hooks are process-global. The harness registers two
// dispatchers once per process; each case may install its own callbacks
// (before it starts goroutines) and they are cleared when the case ends.

var casePointHook func(point string, f *am.Func)
var caseGraphHook func(point string, g, aux *am.VerifGraph, a, b am.VerifVertex, edgeTo map[interface{}]am.VerifVertex)

var hooksInstalled bool

func installHooks() {
	if hooksInstalled {
		return
	}
	hooksInstalled = true
	am.VerifSetPointHook(func(p string, f *am.Func) {
		if h := casePointHook; h != nil {
			h(p, f)
		}
	})
	am.VerifSetGraphHook(func(p string, g, aux *am.VerifGraph, a, b am.VerifVertex, edgeTo map[interface{}]am.VerifVertex) {
		if h := caseGraphHook; h != nil {
			h(p, g, aux, a, b, edgeTo)
		}
	})
}

func clearCaseHooks() {
	casePointHook = nil
	caseGraphHook = nil
}

// depthMeter counts reachTarget nesting and entries (sequential cases only).
type depthMeter struct {
	depth, maxDepth, entries int
	limitDepth, limitEntries int
	tripped                  string
}

func (d *depthMeter) hook(p string, f *am.Func) {
	switch p {
	case "reach.enter":
		d.depth++
		d.entries++
		if d.depth > d.maxDepth {
			d.maxDepth = d.depth
		}
		if d.limitDepth > 0 && d.depth > d.limitDepth && d.tripped == "" {
			d.tripped = "depth"
			panic(boundExceeded{"reachTarget nesting depth bound exceeded"})
		}
		if d.limitEntries > 0 && d.entries > d.limitEntries && d.tripped == "" {
			d.tripped = "entries"
			panic(boundExceeded{"reachTarget entry bound exceeded"})
		}
	case "reach.exit":
		d.depth--
	}
}

func (d *depthMeter) reset() { d.depth, d.maxDepth, d.entries, d.tripped = 0, 0, 0, "" }

type boundExceeded struct{ msg string }
