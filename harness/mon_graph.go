package main

import (
	"fmt"
	"math/rand"
	"sort"
	"strings"

	am "github.com/hashicorp/go-argmapper"
)

// ---------------------------------------------------------------------------
// Vertices for the graph package: plain comparable values and hashable
// pointer vertices (two distinct objects may share a hash code).
// ---------------------------------------------------------------------------

type hv struct {
	K   int
	Gen int
}

func (h *hv) Hashcode() interface{} { return h.K }
func (h *hv) String() string        { return fmt.Sprintf("hv%d.%d", h.K, h.Gen) }

type sv struct{ A, B int }

// vertexMaker produces vertex i in one of four flavours.
type vertexMaker struct {
	kind int
	gen  int
}

func (m *vertexMaker) make(i int) interface{} {
	switch m.kind {
	case 0:
		return i
	case 1:
		return fmt.Sprintf("v%d", i)
	case 2:
		return sv{i, i * 7}
	case 4:
		// vertices that PRINT alike in pairs: int 2k and string "2k"
		if i%2 == 0 {
			return i
		}
		return fmt.Sprint(i - 1)
	case 5:
		// hashable vertices with distinct hash codes and one display name per pair
		return &nv{K: i}
	case 7:
		// a vertex that is NOT comparable (it holds a slice) and therefore
		// brings its own hash code
		return uv{K: i, Pad: []int{i}}
	case 6:
		// a vertex that delegates its identity to a key object which is
		// itself hashable (mutation histories of C19 only: KahnSort hashes
		// its arguments twice, which is outside C20's universe)
		return &dv{K: i}
	default:
		m.gen++
		return &hv{K: i, Gen: m.gen}
	}
}

// key is the identity the graph uses for a vertex (its hash code).
func (m *vertexMaker) key(i int) interface{} {
	switch m.kind {
	case 0:
		return i
	case 1:
		return fmt.Sprintf("v%d", i)
	case 2:
		return sv{i, i * 7}
	case 4:
		if i%2 == 0 {
			return i
		}
		return fmt.Sprint(i - 1)
	case 6:
		return dkey{i}
	default:
		return i
	}
}

// dv's hash code is a dkey, and a dkey would hash to something else again if
// it were hashed a second time.
type dv struct{ K int }

func (d *dv) Hashcode() interface{} { return dkey{d.K} }

type dkey struct{ K int }

func (k dkey) Hashcode() interface{} { return fmt.Sprintf("rehashed-%d", k.K%2) }

// uv is not comparable: using it as a map key or comparing two of them with
// == panics; its hash code is what identifies it.
type uv struct {
	K   int
	Pad []int
}

func (u uv) Hashcode() interface{} { return u.K }
func (u uv) String() string        { return fmt.Sprintf("uv%d", u.K) }

// kindUncomparable is the vertex flavour of uv. It is not among the flavours
// drawn at random (nVertexKinds): monitors switch to it for a fixed,
// index-determined subset of their cases.
const kindUncomparable = 7

// nv: hash code K, display name shared by K and K^1.
type nv struct{ K int }

func (n *nv) Hashcode() interface{} { return n.K }
func (n *nv) String() string        { return fmt.Sprintf("nv%d", n.K/2) }

// nVertexKinds is the number of vertex flavours vertexMaker knows.
const nVertexKinds = 6

const inf = 1 << 60

// refGraph is the harness's own adjacency matrix (weight -1 = absent).
type refGraph struct {
	n int
	w [][]int
}

func newRef(n int) *refGraph {
	g := &refGraph{n: n, w: make([][]int, n)}
	for i := range g.w {
		g.w[i] = make([]int, n)
		for j := range g.w[i] {
			g.w[i][j] = -1
		}
	}
	return g
}

func (g *refGraph) String() string {
	var p []string
	for i := 0; i < g.n; i++ {
		for j := 0; j < g.n; j++ {
			if g.w[i][j] >= 0 {
				p = append(p, fmt.Sprintf("%d->%d(%d)", i, j, g.w[i][j]))
			}
		}
	}
	return fmt.Sprintf("n=%d %s", g.n, strings.Join(p, " "))
}

// floyd returns all-pairs shortest distances (inf = unreachable).
func (g *refGraph) floyd() [][]int {
	d := make([][]int, g.n)
	for i := range d {
		d[i] = make([]int, g.n)
		for j := range d[i] {
			d[i][j] = inf
			if g.w[i][j] >= 0 {
				d[i][j] = g.w[i][j]
			}
		}
		d[i][i] = 0
	}
	for k := 0; k < g.n; k++ {
		for i := 0; i < g.n; i++ {
			for j := 0; j < g.n; j++ {
				if d[i][k] < inf && d[k][j] < inf && d[i][k]+d[k][j] < d[i][j] {
					d[i][j] = d[i][k] + d[k][j]
				}
			}
		}
	}
	return d
}

// reach returns the reflexive-transitive closure.
func (g *refGraph) reach() [][]bool {
	r := make([][]bool, g.n)
	for i := range r {
		r[i] = make([]bool, g.n)
		r[i][i] = true
		for j := range r[i] {
			if g.w[i][j] >= 0 {
				r[i][j] = true
			}
		}
	}
	for k := 0; k < g.n; k++ {
		for i := 0; i < g.n; i++ {
			for j := 0; j < g.n; j++ {
				if r[i][k] && r[k][j] {
					r[i][j] = true
				}
			}
		}
	}
	return r
}

func (g *refGraph) cyclic() bool {
	r := g.reach()
	for i := 0; i < g.n; i++ {
		for j := 0; j < g.n; j++ {
			if g.w[i][j] >= 0 && r[j][i] {
				return true
			}
		}
	}
	return false
}

// build realises ref as a library graph (edges added in random order, some
// re-added with a changed weight first).
func buildGraph(ref *refGraph, vm *vertexMaker, r *rand.Rand) (*am.VerifGraph, []interface{}) {
	var g am.VerifGraph
	vs := make([]interface{}, ref.n)
	for _, i := range r.Perm(ref.n) {
		vs[i] = vm.make(i)
		g.Add(vs[i])
	}
	type e struct{ a, b int }
	var es []e
	for i := 0; i < ref.n; i++ {
		for j := 0; j < ref.n; j++ {
			if ref.w[i][j] >= 0 {
				es = append(es, e{i, j})
			}
		}
	}
	r.Shuffle(len(es), func(i, j int) { es[i], es[j] = es[j], es[i] })
	// one graph in four is built partly through a reversed view of itself
	// (the view shares the graph's state: an edge b->a added through it is
	// the edge a->b of the graph)
	var rv *am.VerifGraph
	if r.Intn(4) == 0 {
		rv = g.Reverse()
	}
	for _, x := range es {
		if r.Intn(4) == 0 {
			g.AddEdgeWeighted(vs[x.a], vs[x.b], r.Intn(12)) // overwritten below
		}
		if rv != nil && r.Intn(2) == 0 {
			rv.AddEdgeWeighted(vs[x.b], vs[x.a], ref.w[x.a][x.b])
			continue
		}
		if ref.w[x.a][x.b] == 1 && r.Intn(2) == 0 {
			g.AddEdge(vs[x.a], vs[x.b])
		} else {
			g.AddEdgeWeighted(vs[x.a], vs[x.b], ref.w[x.a][x.b])
		}
	}
	return &g, vs
}

// longCycleRef builds, from the case index alone, a graph whose main feature
// is one ring of 17-40 vertices.
func longCycleRef(idx int) *refGraph {
	lr := rand.New(&splitmix{s: uint64(idx)*0x9e3779b97f4a7c15 + 7})
	ring := 17 + lr.Intn(24)
	small := 2 + lr.Intn(4)
	tail := lr.Intn(4)
	n := ring + small + tail
	perm := lr.Perm(n)
	ref := newRef(n)
	for i := 0; i < ring; i++ {
		ref.w[perm[i]][perm[(i+1)%ring]] = 1 + lr.Intn(5)
	}
	for i := 0; i < small; i++ {
		ref.w[perm[ring+i]][perm[ring+(i+1)%small]] = 1
	}
	// the small ring hangs off the big one (one way only), the tail is a path
	ref.w[perm[lr.Intn(ring)]][perm[ring]] = 2
	for i := 0; i < tail; i++ {
		from := perm[lr.Intn(ring)]
		if i > 0 {
			from = perm[ring+small+i-1]
		}
		ref.w[from][perm[ring+small+i]] = 3
	}
	for k := lr.Intn(4); k > 0; k-- {
		a, b := lr.Intn(ring), lr.Intn(ring)
		if a != b {
			ref.w[perm[a]][perm[b]] = 4
		}
	}
	return ref
}

func randomRef(r *rand.Rand, maxN int) *refGraph {
	n := 1 + r.Intn(maxN)
	ref := newRef(n)
	density := r.Float64()
	if r.Intn(4) == 0 {
		density *= 0.3
	}
	zeroHeavy := r.Intn(3) == 0
	acyclic := r.Intn(4) == 0
	for i := 0; i < n; i++ {
		for j := 0; j < n; j++ {
			if acyclic && j <= i {
				continue
			}
			if i == j && r.Intn(3) > 0 {
				continue
			}
			if r.Float64() < density {
				w := r.Intn(10)
				if zeroHeavy && r.Intn(2) == 0 {
					w = 0
				}
				ref.w[i][j] = w
			}
		}
	}
	return ref
}

// checkDijkstra compares one Dijkstra run with the reference distances.
func checkDijkstra(g *am.VerifGraph, ref *refGraph, vs []interface{}, vm *vertexMaker, src int, d [][]int, res *CaseResult, prop string, detail func() interface{}) {
	distTo, edgeTo := g.Dijkstra(vs[src])
	idx := map[interface{}]int{}
	for i := range vs {
		idx[vm.key(i)] = i
	}
	for v := 0; v < ref.n; v++ {
		got, ok := distTo[vm.key(v)]
		if d[src][v] < inf {
			if !ok || got != d[src][v] {
				res.violate(prop, "wrong-distance", fmt.Sprintf("Dijkstra from %d: distTo[%d] = %d (present=%v), true minimum %d", src, v, got, ok, d[src][v]), detail())
				continue
			}
			path := g.EdgeToPath(vs[v], edgeTo)
			if len(path) == 0 || am.VerifVertexID(path[0]) != vm.key(src) || am.VerifVertexID(path[len(path)-1]) != vm.key(v) {
				res.violate(prop, "path-endpoints", fmt.Sprintf("Dijkstra from %d: predecessor path for %d does not lead from the source to the vertex: %v", src, v, path), detail())
				continue
			}
			sum := 0
			bad := false
			for k := 0; k+1 < len(path); k++ {
				a, aok := idx[am.VerifVertexID(path[k])]
				b, bok := idx[am.VerifVertexID(path[k+1])]
				if !aok || !bok || ref.w[a][b] < 0 {
					bad = true
					break
				}
				sum += ref.w[a][b]
			}
			if bad {
				res.violate(prop, "path-nonexistent-edge", fmt.Sprintf("Dijkstra from %d: path to %d uses an edge that does not exist: %v", src, v, path), detail())
			} else if sum != d[src][v] {
				res.violate(prop, "path-weight", fmt.Sprintf("Dijkstra from %d: path to %d weighs %d, distance %d", src, v, sum, d[src][v]), detail())
			}
			res.obs("reachable_pairs_checked", 1)
		} else {
			// unreachable: the predecessor chain must not lead back to the source
			cur := vs[v]
			for steps := 0; cur != nil; steps++ {
				if steps > ref.n+1 {
					res.violate(prop, "predecessor-cycle", fmt.Sprintf("Dijkstra from %d: predecessor chain of unreachable %d does not terminate", src, v), detail())
					break
				}
				if am.VerifVertexID(cur) == vm.key(src) {
					res.violate(prop, "unreachable-linked-to-source", fmt.Sprintf("Dijkstra from %d: predecessor chain of unreachable %d leads to the source", src, v), detail())
					break
				}
				cur = edgeTo[am.VerifVertexID(cur)]
			}
			res.obs("unreachable_pairs_checked", 1)
		}
	}
}

// decodeSmall decodes graph number code (base 4, n*n digits) on n vertices:
// digit 0 = absent, 1..3 = weight 0..2.
func decodeSmall(n int, code int) *refGraph {
	ref := newRef(n)
	for i := 0; i < n; i++ {
		for j := 0; j < n; j++ {
			ref.w[i][j] = code%4 - 1
			code /= 4
		}
	}
	return ref
}

const exhaustChunks = 256 // 4^9 / 1024

func smallGraphCount() int { return 4 + 256 + 262144 } // n = 1, 2, 3

// smallGraph maps a global index to a graph on <= 3 vertices.
func smallGraph(i int) *refGraph {
	switch {
	case i < 4:
		return decodeSmall(1, i)
	case i < 4+256:
		return decodeSmall(2, i-4)
	default:
		return decodeSmall(3, i-4-256)
	}
}

// ---------------------------------------------------------------------------
// C18
// ---------------------------------------------------------------------------

func init() {
	register(&Monitor{
		ID: "C18",
		Cases: func(t string) int {
			if t == "thorough" {
				return exhaustChunks + 1 + 400000
			}
			return 25000
		},
		Rule: "random digraphs through the VerifGraph alias: 1-10 vertices, densities 0-1, weights 0-9 incl. zero-weight cycles, self-loops, edges re-added with a changed weight, int/string/struct/hashable-pointer vertices; every graph searched from every source, R times (map order); " +
			"oracle: Floyd-Warshall on the harness's adjacency matrix — every reachable vertex has the exact distance and a predecessor path made of existing edges from the source whose weights sum to it; an unreachable vertex's predecessor chain never meets the source. " +
			"One case in six is a HISTORY on one graph object and its reversed views: searches from random sources interleaved with edge (re-)weighting, removal and vertex detachment through either handle, each search compared with the reference of that moment. One case in 10 instead checks the non-negative graphs the resolver really searches (reach.path hook: the chosen path is a real path of minimum weight per Bellman-Ford). The thorough tier additionally enumerates ALL digraphs on <= 3 vertices with weights {absent,0,1,2} (262 404 graphs, every source). " +
			"One case in 32 is a long-chain graph (257-420 vertices, shortest paths of several hundred edges, shortcuts costing about as much as the stretch of chain they bypass) checked against the harness's own O(n^2) search. " +
			"non-trivial = >= 3 vertices and >= 2 edges",
		Assumptions: []string{"non-negative weights only (the property's precondition); the resolver's re-weighted copies with a negative weight are skipped by the live-graph monitor"},
		Run:         runC18,
		Post: func(run *RunInfo, a *Agg) {
			if run.Tier == "thorough" && a.Obs["exhaustive_small_graphs"] == int64(smallGraphCount()) {
				a.Obs["exhaustive_le3_vertices_complete"] = 1
			}
		},
	})
}

func runC18(c *CaseCtx) (res CaseResult) {
	r := caseRand(c.Seed, "C18", c.Idx)
	if c.Tier == "thorough" && c.Idx <= exhaustChunks {
		// exhaustive sub-space
		lo, hi := c.Idx*1024+260, (c.Idx+1)*1024+260
		if c.Idx == 0 {
			lo = 0
		}
		if hi > smallGraphCount() {
			hi = smallGraphCount()
		}
		res.Key = fmt.Sprintf("exhaustive %d-%d", lo, hi)
		res.NonTrivial = true
		vm := &vertexMaker{kind: c.Idx % nVertexKinds}
		for i := lo; i < hi; i++ {
			ref := smallGraph(i)
			g, vs := buildGraph(ref, vm, r)
			d := ref.floyd()
			for s := 0; s < ref.n; s++ {
				checkDijkstra(g, ref, vs, vm, s, d, &res, "C18", func() interface{} { return map[string]interface{}{"graph": ref.String(), "exhaustive": true} })
				res.Evals++
			}
			res.obs("exhaustive_small_graphs", 1)
		}
		return res
	}
	if c.Idx%10 == 9 {
		return runLiveGraph(c, r, "C18")
	}
	if c.Idx%6 == 1 {
		return runC18History(c, r)
	}
	if c.Idx%32 == 5 {
		return runC18Long(c, r)
	}
	ref := randomRef(r, 10)
	if c.Idx%8 == 3 {
		// large weights: shortest-path sums up to 2.0e9, still below the
		// 2^31-1 "not reached" sentinel (<= 4 edges of <= 5e8)
		ref = randomRef(r, 5)
		for i := range ref.w {
			for j := range ref.w[i] {
				if ref.w[i][j] >= 0 && r.Intn(10) > 0 {
					ref.w[i][j] = 300000000 + r.Intn(200000001)
				}
			}
		}
		res.obs("large_weight_graphs", 1)
	}
	if c.Idx%16 == 7 {
		// weights and path sums beyond the int32 range (edge weights are
		// plain ints): values around 2^31 and up to 2^40
		ref = randomRef(r, 5)
		for i := range ref.w {
			for j := range ref.w[i] {
				if ref.w[i][j] >= 0 {
					switch r.Intn(4) {
					case 0:
						ref.w[i][j] = 1<<31 - 3 + r.Intn(6)
					case 1:
						ref.w[i][j] = 1<<32 + r.Intn(5)
					case 2:
						ref.w[i][j] = r.Intn(1 << 40)
					}
				}
			}
		}
		res.obs("huge_weight_graphs", 1)
	}
	vm := &vertexMaker{kind: r.Intn(nVertexKinds)}
	if c.Idx%13 == 5 {
		vm.kind = kindUncomparable
		res.obs("graphs_over_uncomparable_vertices", 1)
	}
	res.Key = ref.String()
	ne := 0
	for i := range ref.w {
		for _, w := range ref.w[i] {
			if w >= 0 {
				ne++
			}
		}
	}
	res.NonTrivial = ref.n >= 3 && ne >= 2
	d := ref.floyd()
	for i := range d {
		for _, x := range d[i] {
			if x < inf && x > 1<<30 {
				res.obs("distances_above_2^30", 1)
			}
		}
	}
	reps := tierReps(c.Tier, 2, 4)
	for k := 0; k < reps; k++ {
		g, vs := buildGraph(ref, vm, r)
		for s := 0; s < ref.n; s++ {
			checkDijkstra(g, ref, vs, vm, s, d, &res, "C18", func() interface{} {
				return map[string]interface{}{"graph": ref.String(), "vertex_kind": vm.kind}
			})
			res.Evals++
		}
	}
	res.max("max_vertices", int64(ref.n))
	res.max("max_edges", int64(ne))
	res.Sample = map[string]interface{}{"graph": ref.String(), "vertex_kind": vm.kind}
	return res
}

// ---------------------------------------------------------------------------
// Live graphs: what the resolver builds during real calls
// ---------------------------------------------------------------------------

type snap struct {
	out, in map[interface{}]map[interface{}]int
	hash    map[interface{}]am.VerifVertex
}

func takeSnap(g *am.VerifGraph) snap {
	o, i, h := g.VerifSnapshot()
	return snap{o, i, h}
}

// mirrorProblems checks that in is exactly the transpose of out and that hash
// has exactly the vertices of both.
func (s snap) mirrorProblems() []string {
	var p []string
	for a, m := range s.out {
		if _, ok := s.hash[a]; !ok {
			p = append(p, fmt.Sprintf("out-adjacency has vertex %v missing from the vertex table", a))
		}
		for b, w := range m {
			if w2, ok := s.in[b][a]; !ok || w2 != w {
				p = append(p, fmt.Sprintf("edge %v->%v (%d) has no equal mirror in the in-adjacency", a, b, w))
			}
		}
	}
	for b, m := range s.in {
		if _, ok := s.hash[b]; !ok {
			p = append(p, fmt.Sprintf("in-adjacency has vertex %v missing from the vertex table", b))
		}
		for a, w := range m {
			if w2, ok := s.out[a][b]; !ok || w2 != w {
				p = append(p, fmt.Sprintf("in-edge %v<-%v (%d) has no equal mirror in the out-adjacency", b, a, w))
			}
		}
	}
	for k := range s.hash {
		if _, ok := s.out[k]; !ok {
			p = append(p, fmt.Sprintf("vertex %v has no out-adjacency entry", k))
		}
		if _, ok := s.in[k]; !ok {
			p = append(p, fmt.Sprintf("vertex %v has no in-adjacency entry", k))
		}
	}
	return p
}

func (s snap) equal(t snap) bool {
	if len(s.out) != len(t.out) || len(s.hash) != len(t.hash) {
		return false
	}
	for a, m := range s.out {
		m2, ok := t.out[a]
		if !ok || len(m) != len(m2) {
			return false
		}
		for b, w := range m {
			if w2, ok := m2[b]; !ok || w2 != w {
				return false
			}
		}
	}
	return true
}

// runLiveGraph runs real calls with the graph hook installed and checks the
// resolver's own graphs: (C18) every chosen path is a real, minimum-weight
// path when the searched graph has no negative weight; (C19) mirror
// consistency of every graph and independence of the re-weighted copy from
// the original; (C20) the pruning DFS kept exactly the vertices reachable
// from the root.
func runLiveGraph(c *CaseCtx, r *rand.Rand, prop string) (res CaseResult) {
	s, fam := pickGeneralMix(r)
	res.Key = "live " + s.Key()
	res.NonTrivial = len(s.Convs) >= 1
	det := func() interface{} { return map[string]interface{}{"scenario": s.String(), "live": true} }
	var full *snap
	var orig *snap
	caseGraphHook = func(p string, g, aux *am.VerifGraph, a, b am.VerifVertex, edgeTo map[interface{}]am.VerifVertex) {
		switch p {
		case "callgraph.full":
			sn := takeSnap(g)
			full = &sn
			orig = nil
			if prop == "C19" {
				for _, m := range sn.mirrorProblems() {
					res.violate("C19", "live-mirror", "resolver graph (full): "+m, det())
				}
				res.obs("live_graphs_mirror_checked", 1)
			}
		case "callgraph.pruned":
			sn := takeSnap(g)
			orig = &sn
			if prop == "C19" {
				for _, m := range sn.mirrorProblems() {
					res.violate("C19", "live-mirror", "resolver graph (pruned): "+m, det())
				}
				res.obs("live_graphs_mirror_checked", 1)
			}
			if prop == "C20" && full != nil {
				// survivors = root + vertices reachable from the root along
				// in-edges (reversed graph), not descending below the target
				rootID, tgtID := am.VerifVertexID(a), am.VerifVertexID(b)
				want := map[interface{}]bool{rootID: true}
				var walk func(v interface{})
				walk = func(v interface{}) {
					for w := range full.in[v] {
						if want[w] {
							continue
						}
						want[w] = true
						if w != tgtID {
							walk(w)
						}
					}
				}
				walk(rootID)
				for k := range sn.hash {
					if !want[k] {
						res.violate("C20", "live-dfs-kept-unreachable", fmt.Sprintf("pruning kept %v which the traversal from the root cannot reach", k), det())
					}
				}
				for k := range want {
					if _, ok := sn.hash[k]; !ok {
						res.violate("C20", "live-dfs-missed-reachable", fmt.Sprintf("pruning removed %v which is reachable from the root", k), det())
					}
				}
				res.obs("live_prunings_checked", 1)
			}
		case "reach.path":
			// g: the call's graph, aux: the (possibly re-weighted) copy that was searched
			gs := takeSnap(g)
			if prop == "C19" {
				for _, m := range gs.mirrorProblems() {
					res.violate("C19", "live-mirror", "resolver graph: "+m, det())
				}
				if aux != g {
					as := takeSnap(aux)
					for _, m := range as.mirrorProblems() {
						res.violate("C19", "live-mirror", "re-weighted copy: "+m, det())
					}
					if orig != nil && !gs.equal(*orig) {
						// the walk does not mutate edges between prunings and searches
						res.violate("C19", "live-copy-not-independent", "the call's graph changed after its copy was re-weighted", det())
					}
					res.obs("live_copies_checked", 1)
				}
				res.obs("live_graphs_mirror_checked", 1)
			}
			if prop == "C18" {
				as := takeSnap(aux)
				neg := false
				for _, m := range as.out {
					for _, w := range m {
						if w < 0 {
							neg = true
						}
					}
				}
				if neg {
					res.obs("live_searches_skipped_negative_weight", 1)
					return
				}
				// the search ran on the reversed graph from the root: edges u->v of
				// the reversed graph are in-edges v<-u ... i.e. as.in[u][v]
				rootID := am.VerifVertexID(a)
				cur := am.VerifVertexID(b)
				// Bellman-Ford over reversed edges
				dist := map[interface{}]int{rootID: 0}
				for it := 0; it < len(as.hash)+1; it++ {
					changed := false
					for u, du := range dist {
						for v, w := range as.in[u] {
							if dv, ok := dist[v]; !ok || du+w < dv {
								dist[v] = du + w
								changed = true
							}
						}
					}
					if !changed {
						break
					}
				}
				// walk the predecessor chain from the target back to the root
				sum, steps := 0, 0
				for cur != rootID {
					prev, ok := edgeTo[cur]
					if !ok || prev == nil {
						break
					}
					pid := am.VerifVertexID(prev)
					w, ok := as.in[pid][cur]
					if !ok {
						res.violate("C18", "live-path-nonexistent-edge", fmt.Sprintf("resolver path uses a non-existent edge %v->%v", pid, cur), det())
						return
					}
					sum += w
					cur = pid
					if steps++; steps > len(as.hash)+1 {
						res.violate("C18", "live-predecessor-cycle", "resolver predecessor chain does not terminate", det())
						return
					}
				}
				if cur == rootID {
					if want, ok := dist[am.VerifVertexID(b)]; !ok || want != sum {
						res.violate("C18", "live-path-weight", fmt.Sprintf("resolver path weighs %d, minimum %d", sum, want), det())
					}
					res.obs("live_paths_checked", 1)
				} else if _, ok := dist[am.VerifVertexID(b)]; ok {
					res.violate("C18", "live-reachable-without-path", "a vertex reachable from the root has no predecessor path to it", det())
				}
			}
		}
	}
	reps := tierReps(c.Tier, 2, 4)
	for k := 0; k < reps; k++ {
		in, err := Instantiate(s, r)
		if err != nil {
			res.Skip = "instantiate"
			break
		}
		DoCall(in.W, in.Target.Func, in.AllArgs(0, r))
		res.Evals++
	}
	caseGraphHook = nil
	res.obs("live_cases."+strings.SplitN(fam, "/", 2)[0], 1)
	res.Sample = map[string]interface{}{"scenario": s.String(), "live": true}
	return res
}

// ---------------------------------------------------------------------------
// C19 — mutation sequences against an executable model
// ---------------------------------------------------------------------------

type modelGraph struct {
	verts map[int]bool
	edges map[int]map[int]int // out edges
}

func newModel() *modelGraph { return &modelGraph{verts: map[int]bool{}, edges: map[int]map[int]int{}} }

func (m *modelGraph) clone() *modelGraph {
	c := newModel()
	for v := range m.verts {
		c.verts[v] = true
	}
	for a, mm := range m.edges {
		c.edges[a] = map[int]int{}
		for b, w := range mm {
			c.edges[a][b] = w
		}
	}
	return c
}

func (m *modelGraph) add(v int) {
	if !m.verts[v] {
		m.verts[v] = true
		m.edges[v] = map[int]int{}
	}
}

func (m *modelGraph) remove(v int) {
	delete(m.verts, v)
	delete(m.edges, v)
	for _, mm := range m.edges {
		delete(mm, v)
	}
}

// handle is one way of looking at one model: a graph object plus direction.
type handle struct {
	g        *am.VerifGraph
	m        *modelGraph
	reversed bool
	name     string
}

func (h *handle) edge(a, b int) (int, int) {
	if h.reversed {
		return b, a
	}
	return a, b
}

func keysStr(m map[int]bool) string {
	var ks []int
	for k := range m {
		ks = append(ks, k)
	}
	sort.Ints(ks)
	return fmt.Sprint(ks)
}

func init() {
	register(&Monitor{
		ID:    "C19",
		Cases: func(t string) int { return tierN(t, 12000, 300000) },
		Rule: "random sequences of 1-60 operations over <= 6 vertex ids (so operations collide), starting from the zero-value Graph: Add, AddOverwrite (new object, same hash code), AddEdge, AddEdgeWeighted, RemoveEdge (present or absent edge), Remove, Copy (both sides keep mutating, each with its own model), " +
			"Reverse (view sharing the model; Reverse().Reverse() is compared with the original); int/string/struct/hashable-pointer vertices. After EVERY operation and for every live handle: Vertices() = model set; OutEdges/InEdges = model successors/predecessors; " +
			"VerifSnapshot: in-adjacency is exactly the transpose of out-adjacency with equal weights and the vertex table has exactly their keys; Vertex(id) non-nil iff present; at the end Dijkstra distances equal Floyd-Warshall on the model (last weight wins). " +
			"One case in 24 is a churn history: 36-65 vertices are added with edges, views (Reverse, Copy) are taken, then all but three vertices are removed through ONE of the handles while the others are held, then mixed operations through all handles. One case in 10 checks mirror consistency and copy independence on the resolver's live graphs. non-trivial = sequence with >= 10 operations including a Remove/RemoveEdge and a Copy or Reverse",
		Assumptions: []string{"an edge operation that names an absent vertex, and removing an absent vertex, are expected to do nothing (as the package documents)", "which Go object represents a re-added vertex is not checked (documented one way, implemented another, property silent)"},
		Run:         runC19,
	})
}

func runC19(c *CaseCtx) (res CaseResult) {
	r := caseRand(c.Seed, "C19", c.Idx)
	if c.Idx%10 == 9 {
		return runLiveGraph(c, r, "C19")
	}
	if c.Idx%30 == 7 {
		return runC19NilVertex(c, r)
	}
	vm := &vertexMaker{kind: r.Intn(nVertexKinds + 1)}
	if c.Idx%13 == 5 {
		vm.kind = kindUncomparable
		res.obs("histories_over_uncomparable_vertices", 1)
	}
	nv := 2 + r.Intn(5)
	nops := 1 + r.Intn(60)
	// churn (1 case in 24): a large graph is built, views are taken, and
	// then most of it is removed again through ONE handle (dozens of
	// removals while the views are held), followed by mixed operations
	// (the big variant is chosen by a modulus that is coprime with the worker
	// stride, so that these long cases spread over all workers)
	bigChurn := c.Idx%251 == 17
	churn := c.Idx%24 == 5 || bigChurn
	buildEnd, removeEnd, remH := 0, 0, 0
	if churn {
		nv = 36 + r.Intn(30)
		buildEnd = 2 * nv
		if bigChurn {
			// a BIG churn history: 70-130 vertices, most of them present
			// when the views and the copy are taken
			nv = 70 + c.Idx%61
			buildEnd = 5 * nv
			res.obs("big_churn_cases", 1)
		}
		removeEnd = buildEnd + 3 + nv - 3
		nops = removeEnd + 20 + r.Intn(40)
		res.obs("churn_cases", 1)
	}
	var g0 am.VerifGraph
	handles := []*handle{{g: &g0, m: newModel(), name: "g"}}
	var trace []string
	det := func() interface{} {
		return map[string]interface{}{"vertex_kind": vm.kind, "ops": strings.Join(trace, " ; ")}
	}
	defer func() {
		if p := recover(); p != nil {
			res.violate("C19", "panic/"+crashKey(fmt.Sprint(p)), fmt.Sprintf("graph operation panicked: %v", p), det())
		}
	}()
	hadRemove, hadView := false, false
	checkAll := func() bool {
		ok := true
		for _, h := range handles {
			// vertex set
			got := map[int]bool{}
			idx := map[interface{}]int{}
			for i := 0; i < nv; i++ {
				idx[vm.key(i)] = i
			}
			for _, v := range h.g.Vertices() {
				i, known := idx[am.VerifVertexID(v)]
				if !known {
					res.violate("C19", "unknown-vertex", fmt.Sprintf("%s: Vertices() returned an unknown vertex %v", h.name, v), det())
					ok = false
					continue
				}
				got[i] = true
			}
			if keysStr(got) != keysStr(h.m.verts) {
				res.violate("C19", "vertex-set", fmt.Sprintf("%s: Vertices() = %s, model %s", h.name, keysStr(got), keysStr(h.m.verts)), det())
				ok = false
			}
			for i := 0; i < nv; i++ {
				present := h.m.verts[i]
				if (h.g.Vertex(vm.key(i)) != nil) != present {
					res.violate("C19", "vertex-lookup", fmt.Sprintf("%s: Vertex(%d) non-nil = %v, present = %v", h.name, i, !present, present), det())
					ok = false
				}
				if !present {
					continue
				}
				succ, pred := map[int]bool{}, map[int]bool{}
				for a, mm := range h.m.edges {
					for b := range mm {
						x, y := h.edge(a, b)
						if x == i {
							succ[y] = true
						}
						if y == i {
							pred[x] = true
						}
					}
				}
				gs, gp := map[int]bool{}, map[int]bool{}
				for _, v := range h.g.OutEdges(vm.make(i)) {
					if v == nil {
						res.violate("C19", "dangling-edge", fmt.Sprintf("%s: OutEdges(%d) contains a nil vertex (edge to a removed vertex)", h.name, i), det())
						ok = false
						continue
					}
					gs[idx[am.VerifVertexID(v)]] = true
				}
				for _, v := range h.g.InEdges(vm.make(i)) {
					if v == nil {
						res.violate("C19", "dangling-edge", fmt.Sprintf("%s: InEdges(%d) contains a nil vertex (edge from a removed vertex)", h.name, i), det())
						ok = false
						continue
					}
					gp[idx[am.VerifVertexID(v)]] = true
				}
				if keysStr(gs) != keysStr(succ) {
					res.violate("C19", "successors", fmt.Sprintf("%s: OutEdges(%d) = %s, model %s", h.name, i, keysStr(gs), keysStr(succ)), det())
					ok = false
				}
				if keysStr(gp) != keysStr(pred) {
					res.violate("C19", "predecessors", fmt.Sprintf("%s: InEdges(%d) = %s, model %s", h.name, i, keysStr(gp), keysStr(pred)), det())
					ok = false
				}
			}
			// internal mirror + weights
			sn := takeSnap(h.g)
			for _, msg := range sn.mirrorProblems() {
				res.violate("C19", "mirror", h.name+": "+msg, det())
				ok = false
			}
			for a, mm := range h.m.edges {
				for b, w := range mm {
					x, y := h.edge(a, b)
					if gw, present := sn.out[vm.key(x)][vm.key(y)]; !present || gw != w {
						res.violate("C19", "weight", fmt.Sprintf("%s: edge %d->%d has weight %d (present=%v), last set %d", h.name, x, y, gw, present, w), det())
						ok = false
					}
				}
			}
			res.obs("handle_states_checked", 1)
		}
		return ok
	}
	removals := map[string]int{}
	maxHub := 0
	for k := 0; k < nops; k++ {
		h := pick(r, handles)
		if churn {
			switch {
			case k < buildEnd:
				h = handles[0]
			case k == buildEnd+2:
				remH = r.Intn(len(handles))
				h = handles[remH]
			case k > buildEnd+2 && k < removeEnd:
				h = handles[remH]
			}
		}
		present := func() []int {
			var p []int
			for v := range h.m.verts {
				p = append(p, v)
			}
			sort.Ints(p)
			return p
		}()
		op := r.Intn(12)
		hubEdge := false
		if churn {
			switch {
			case k < buildEnd:
				op = []int{0, 0, 0, 1, 3, 4, 5, 6, 6, 2}[r.Intn(10)]
				// half of the edges of the build phase touch one hub vertex,
				// which ends up with dozens of successors and predecessors
				hubEdge = op >= 3 && op <= 6 && h.m.verts[0] && r.Intn(4) != 0
			case k == buildEnd:
				op = 10
			case k == buildEnd+1:
				op = 9 + r.Intn(3)
			case k < removeEnd && len(present) > 3 && r.Intn(8) != 0:
				op = 8
			}
		}
		if !(churn && k < removeEnd) && r.Intn(12) == 0 {
			// an edge operation naming an absent vertex (or removing one)
			// does nothing — and must not disturb anything
			var absent []int
			for v := 0; v < nv; v++ {
				if !h.m.verts[v] {
					absent = append(absent, v)
				}
			}
			if len(absent) > 0 {
				a := pick(r, absent)
				b := r.Intn(nv)
				switch r.Intn(5) {
				case 0:
					h.g.AddEdge(vm.make(a), vm.make(b))
					trace = append(trace, fmt.Sprintf("%s.AddEdge(absent %d,%d)", h.name, a, b))
				case 1:
					h.g.AddEdgeWeighted(vm.make(b), vm.make(a), r.Intn(10))
					trace = append(trace, fmt.Sprintf("%s.AddEdgeWeighted(%d,absent %d)", h.name, b, a))
				case 2:
					h.g.RemoveEdge(vm.make(a), vm.make(b))
					trace = append(trace, fmt.Sprintf("%s.RemoveEdge(absent %d,%d)", h.name, a, b))
				case 3:
					h.g.RemoveEdge(vm.make(b), vm.make(a))
					trace = append(trace, fmt.Sprintf("%s.RemoveEdge(%d,absent %d)", h.name, b, a))
				default:
					h.g.Remove(vm.make(a))
					trace = append(trace, fmt.Sprintf("%s.Remove(absent %d)", h.name, a))
				}
				res.Evals++
				res.obs("operations_naming_an_absent_vertex", 1)
				if !checkAll() {
					break
				}
				continue
			}
		}
		switch {
		case op <= 1 || (len(present) == 0 && op <= 8):
			v := r.Intn(nv)
			h.g.Add(vm.make(v))
			h.m.add(v)
			trace = append(trace, fmt.Sprintf("%s.Add(%d)", h.name, v))
		case op == 2:
			v := r.Intn(nv)
			h.g.AddOverwrite(vm.make(v))
			h.m.add(v)
			trace = append(trace, fmt.Sprintf("%s.AddOverwrite(%d)", h.name, v))
		case op == 3:
			a, b := pick(r, present), pick(r, present)
			h.g.AddEdge(vm.make(a), vm.make(b))
			x, y := h.edge(a, b)
			h.m.edges[x][y] = 1
			trace = append(trace, fmt.Sprintf("%s.AddEdge(%d,%d)", h.name, a, b))
		case op <= 6:
			a, b, w := pick(r, present), pick(r, present), r.Intn(10)
			if c.Idx%5 == 2 && k%4 == 1 {
				// weights are ints: large ones are stored and handed back as
				// they are (non-negative: the histories also run searches)
				w = []int{1 << 40, 1 << 35, 1<<31 + 7, 1<<32 + 9}[(k/4)%4] + w
			}
			if hubEdge {
				if c.Idx%48 == 5 {
					a = 0
				} else {
					b = 0
				}
			}
			h.g.AddEdgeWeighted(vm.make(a), vm.make(b), w)
			x, y := h.edge(a, b)
			h.m.edges[x][y] = w
			if d := len(h.m.edges[0]); d > maxHub {
				maxHub = d
			}
			if a != 0 && b == 0 {
				din := 0
				for _, mm := range h.m.edges {
					if _, ok := mm[0]; ok {
						din++
					}
				}
				if din > maxHub {
					maxHub = din
				}
			}
			trace = append(trace, fmt.Sprintf("%s.AddEdgeWeighted(%d,%d,%d)", h.name, a, b, w))
		case op == 7:
			a, b := pick(r, present), pick(r, present)
			h.g.RemoveEdge(vm.make(a), vm.make(b))
			x, y := h.edge(a, b)
			delete(h.m.edges[x], y)
			hadRemove = true
			trace = append(trace, fmt.Sprintf("%s.RemoveEdge(%d,%d)", h.name, a, b))
		case op == 8:
			v := pick(r, present)
			h.g.Remove(vm.make(v))
			h.m.remove(v)
			hadRemove = true
			removals[h.name]++
			res.max("max_removals_through_one_handle", int64(removals[h.name]))
			trace = append(trace, fmt.Sprintf("%s.Remove(%d)", h.name, v))
		case op == 9 && len(handles) < 6:
			cp := h.g.Copy()
			handles = append(handles, &handle{g: cp, m: h.m.clone(), reversed: h.reversed, name: fmt.Sprintf("copy%d(%s)", len(handles), h.name)})
			hadView = true
			trace = append(trace, fmt.Sprintf("%s.Copy()", h.name))
		case op == 10 && len(handles) < 6:
			rv := h.g.Reverse()
			handles = append(handles, &handle{g: rv, m: h.m, reversed: !h.reversed, name: fmt.Sprintf("rev%d(%s)", len(handles), h.name)})
			hadView = true
			trace = append(trace, fmt.Sprintf("%s.Reverse()", h.name))
		case op == 11 && len(handles) < 6:
			rr := h.g.Reverse().Reverse()
			handles = append(handles, &handle{g: rr, m: h.m, reversed: h.reversed, name: fmt.Sprintf("revrev%d(%s)", len(handles), h.name)})
			hadView = true
			trace = append(trace, fmt.Sprintf("%s.Reverse().Reverse()", h.name))
		default:
			v := r.Intn(nv)
			h.g.Add(vm.make(v))
			h.m.add(v)
			trace = append(trace, fmt.Sprintf("%s.Add(%d)", h.name, v))
		}
		res.Evals++
		if !checkAll() {
			break
		}
	}
	// last weight wins, observed through the search
	for _, h := range handles {
		ref := newRef(nv)
		for a, mm := range h.m.edges {
			for b, w := range mm {
				x, y := h.edge(a, b)
				ref.w[x][y] = w
			}
		}
		d := ref.floyd()
		for s := 0; s < nv; s++ {
			if !h.m.verts[s] {
				continue
			}
			distTo, _ := h.g.Dijkstra(vm.make(s))
			for v := 0; v < nv; v++ {
				if h.m.verts[v] && d[s][v] < inf && distTo[vm.key(v)] != d[s][v] {
					res.violate("C19", "search-uses-stale-weight", fmt.Sprintf("%s: Dijkstra %d->%d = %d, model %d", h.name, s, v, distTo[vm.key(v)], d[s][v]), det())
				}
			}
		}
	}
	if churn {
		res.max("max_hub_degree_reached", int64(maxHub))
	}
	res.Key = strings.Join(trace, ";")
	res.NonTrivial = nops >= 10 && hadRemove && hadView
	res.max("max_sequence_length", int64(len(trace)))
	res.max("max_live_handles", int64(len(handles)))
	tr := trace
	if len(tr) > 25 {
		tr = tr[:25]
	}
	res.Sample = map[string]interface{}{"vertex_kind": vm.kind, "ops": strings.Join(tr, " ; ")}
	return res
}

// ---------------------------------------------------------------------------
// C20 — traversals and orderings
// ---------------------------------------------------------------------------

func init() {
	register(&Monitor{
		ID: "C20",
		Cases: func(t string) int {
			if t == "thorough" {
				return exhaustChunks + 1 + 300000
			}
			return 20000
		},
		Rule: "same graph generator as C18 (1-10 vertices, all densities, self-loops, acyclic and cyclic, four vertex kinds), R repetitions for map order; oracle = transitive closure of the harness's adjacency matrix. " +
			"DFS with a fixed per-vertex descend/decline decision: the SET of reported vertices equals the vertices != start reachable by a path whose interior vertices all descend, each descending vertex is reported exactly once, the start never; in half of the cases every checked traversal is preceded by one that its callback aborts (error or recovered panic) after descending into 1-3 vertices; " +
			"KahnSort: acyclic => every vertex exactly once and every edge forward, any cycle or self-loop => panic; StronglyConnected: the lists partition the vertices and two vertices share a list iff mutually reachable; " +
			"TopoShortestPath on acyclic graphs with exactly one in-degree-0 vertex agrees with Dijkstra from it for every vertex. One case in 10 checks the resolver's pruning DFS on live graphs. " +
			"Thorough additionally enumerates ALL digraphs on <= 3 vertices (262 404 graphs). non-trivial = >= 3 vertices and >= 2 edges",
		Assumptions: []string{"a vertex whose callback declines may be reported more than once (it is never marked visited); the oracle compares sets for those"},
		Run:         runC20,
		Post: func(run *RunInfo, a *Agg) {
			if run.Tier == "thorough" && a.Obs["exhaustive_small_graphs"] == int64(smallGraphCount()) {
				a.Obs["exhaustive_le3_vertices_complete"] = 1
			}
		},
	})
}

func checkTraversals(ref *refGraph, vm *vertexMaker, r *rand.Rand, res *CaseResult, detail func() interface{}) {
	g, vs := buildGraph(ref, vm, r)
	n := ref.n
	idx := map[interface{}]int{}
	for i := 0; i < n; i++ {
		idx[vm.key(i)] = i
	}
	if r.Intn(2) == 0 && n > 0 {
		// history before the checked traversals: the graph has been queried,
		// a COPY of it has been mutated (new edges from former sinks and into
		// former sources, a removal), and some vertices have been overwritten
		// by new objects with the same hash code. None of this changes the
		// graph under test.
		func() {
			defer func() { recover() }() // (a cyclic graph makes KahnSort panic, as it must)
			g.StronglyConnected()
			g.KahnSort()
		}()
		_ = g.Vertices()
		cp := g.Copy()
		for k := 0; k < 1+r.Intn(2*n); k++ {
			cp.AddEdgeWeighted(vs[r.Intn(n)], vs[r.Intn(n)], r.Intn(3))
		}
		if r.Intn(2) == 0 {
			cp.Remove(vs[r.Intn(n)])
		}
		for k := 0; k < r.Intn(3); k++ {
			i := r.Intn(n)
			vs[i] = vm.make(i)
			g.AddOverwrite(vs[i])
		}
		if r.Intn(2) == 0 {
			// edges naming a vertex that is not in the graph do nothing; the
			// vertex is then added and removed again, through the graph or a
			// reversed view of it
			x := vm.make(n + 7)
			g.AddEdgeWeighted(vs[r.Intn(n)], x, 1)
			g.AddEdgeWeighted(x, vs[r.Intn(n)], 1)
			h := g
			if r.Intn(2) == 0 {
				h = g.Reverse()
			}
			h.Add(x)
			h.Remove(x)
		}
		// every sink gets an out-edge and loses it again, every source an
		// in-edge (their edge sets become non-empty and empty again)
		for a := 0; a < n; a++ {
			outs, ins := 0, 0
			for b := 0; b < n; b++ {
				if ref.w[a][b] >= 0 {
					outs++
				}
				if ref.w[b][a] >= 0 {
					ins++
				}
			}
			b := (a + 1) % n
			if outs == 0 && b != a {
				g.AddEdgeWeighted(vs[a], vs[b], 2)
				g.RemoveEdge(vs[a], vs[b])
			}
			if ins == 0 && b != a && ref.w[b][a] < 0 {
				g.AddEdgeWeighted(vs[b], vs[a], 2)
				g.RemoveEdge(vs[b], vs[a])
			}
		}
		res.obs("traversals_checked_after_a_history", 1)
	}
	reach := ref.reach()
	// ---- DFS
	descend := make([]bool, n)
	for i := range descend {
		descend[i] = r.Intn(4) > 0
	}
	abortFirst := r.Intn(2) == 0
	for start := 0; start < n; start++ {
		if abortFirst {
			// a traversal that its callback aborts (error, or a panic the
			// caller recovers) after descending into a few vertices must
			// leave nothing behind for the next traversal
			stopAt, seenCb := 1+r.Intn(3), 0
			usePanic := r.Intn(4) == 0
			func() {
				defer func() { recover() }()
				g.DFS(vs[r.Intn(n)], func(v am.VerifVertex, next func() error) error {
					seenCb++
					if seenCb > stopAt {
						if usePanic {
							panic("callback panic")
						}
						return fmt.Errorf("callback gives up")
					}
					return next()
				})
			}()
			res.obs("aborted_traversals_before_a_checked_one", 1)
		}
		reported := map[int]int{}
		err := g.DFS(vs[start], func(v am.VerifVertex, next func() error) error {
			i, ok := idx[am.VerifVertexID(v)]
			if !ok {
				res.violate("C20", "dfs-unknown-vertex", fmt.Sprintf("DFS reported an unknown vertex %v", v), detail())
				return nil
			}
			reported[i]++
			if descend[i] {
				return next()
			}
			return nil
		})
		if err != nil {
			res.violate("C20", "dfs-error", "DFS returned an error although no callback did", detail())
		}
		// expected: BFS over vertices, expanding start and descending vertices
		want := map[int]bool{}
		seen := map[int]bool{start: true}
		queue := []int{start}
		for len(queue) > 0 {
			u := queue[0]
			queue = queue[1:]
			for v := 0; v < n; v++ {
				if ref.w[u][v] < 0 || v == start {
					continue
				}
				want[v] = true
				if descend[v] && !seen[v] {
					seen[v] = true
					queue = append(queue, v)
				}
			}
		}
		got := map[int]bool{}
		for v, k := range reported {
			got[v] = true
			if descend[v] && k != 1 {
				res.violate("C20", "dfs-reported-twice", fmt.Sprintf("DFS from %d reported descending vertex %d %d times", start, v, k), detail())
			}
		}
		if reported[start] > 0 {
			res.violate("C20", "dfs-reported-start", fmt.Sprintf("DFS from %d reported the start vertex", start), detail())
		}
		if keysStr(got) != keysStr(want) {
			res.violate("C20", "dfs-set", fmt.Sprintf("DFS from %d (descend=%v) reported %s, reachable %s", start, descend, keysStr(got), keysStr(want)), detail())
		}
		res.obs("dfs_runs_checked", 1)
		res.Evals++
	}
	// ---- KahnSort
	cyc := ref.cyclic()
	var order am.VerifTopoOrder
	panicked := func() (p bool) {
		defer func() {
			if recover() != nil {
				p = true
			}
		}()
		order = g.KahnSort()
		return false
	}()
	res.Evals++
	if cyc {
		if !panicked {
			res.violate("C20", "kahn-accepted-cycle", "KahnSort returned an order for a cyclic graph", detail())
		}
		res.obs("kahn_cyclic_refused", 1)
	} else {
		if panicked {
			res.violate("C20", "kahn-refused-dag", "KahnSort panicked on an acyclic graph", detail())
		} else {
			pos := map[int]int{}
			for k, v := range order {
				i, ok := idx[am.VerifVertexID(v)]
				if !ok {
					res.violate("C20", "kahn-unknown-vertex", "KahnSort returned an unknown vertex", detail())
					continue
				}
				if _, dup := pos[i]; dup {
					res.violate("C20", "kahn-duplicate", fmt.Sprintf("KahnSort returned vertex %d twice", i), detail())
				}
				if (vm.kind == 3 || vm.kind == 5) && v != vs[i] {
					res.violate("C20", "kahn-stale-vertex", fmt.Sprintf("KahnSort returned an object for vertex %d that is no longer the graph's vertex (it was overwritten)", i), detail())
				}
				pos[i] = k
			}
			if len(pos) != n {
				res.violate("C20", "kahn-missing", fmt.Sprintf("KahnSort returned %d of %d vertices", len(pos), n), detail())
			} else {
				for a := 0; a < n; a++ {
					for b := 0; b < n; b++ {
						if ref.w[a][b] >= 0 && pos[a] >= pos[b] {
							res.violate("C20", "kahn-backward-edge", fmt.Sprintf("edge %d->%d points backward in the order", a, b), detail())
						}
					}
				}
			}
			res.obs("kahn_orders_checked", 1)
			// ---- TopoShortestPath on single-rooted DAGs
			var rootsV []int
			for v := 0; v < n; v++ {
				indeg := 0
				for u := 0; u < n; u++ {
					if ref.w[u][v] >= 0 {
						indeg++
					}
				}
				if indeg == 0 {
					rootsV = append(rootsV, v)
				}
			}
			if len(rootsV) == 1 && len(pos) == n {
				root := rootsV[0]
				tdist, tedge := g.TopoShortestPath(order)
				ddist, _ := g.Dijkstra(vs[root])
				d := ref.floyd()
				for v := 0; v < n; v++ {
					if v == root {
						continue
					}
					tv, ok := tdist[vm.key(v)]
					if !ok || tv != ddist[vm.key(v)] || tv != d[root][v] {
						res.violate("C20", "topo-distance", fmt.Sprintf("TopoShortestPath dist[%d] = %d (present=%v), Dijkstra %d, true %d", v, tv, ok, ddist[vm.key(v)], d[root][v]), detail())
					}
					if p := tedge[vm.key(v)]; p == nil {
						res.violate("C20", "topo-edge-missing", fmt.Sprintf("TopoShortestPath has no predecessor for reachable vertex %d", v), detail())
					} else if pi, ok := idx[am.VerifVertexID(p)]; !ok || ref.w[pi][v] < 0 || d[root][pi]+ref.w[pi][v] != d[root][v] {
						res.violate("C20", "topo-edge-wrong", fmt.Sprintf("TopoShortestPath predecessor of %d is not on a shortest path", v), detail())
					}
				}
				res.obs("topo_shortest_paths_checked", 1)
				res.Evals++
			}
		}
	}
	// ---- StronglyConnected
	comps := g.StronglyConnected()
	res.Evals++
	compOf := map[int]int{}
	for ci, comp := range comps {
		for _, v := range comp {
			i, ok := idx[am.VerifVertexID(v)]
			if !ok {
				res.violate("C20", "scc-unknown-vertex", "StronglyConnected returned an unknown vertex", detail())
				continue
			}
			if _, dup := compOf[i]; dup {
				res.violate("C20", "scc-duplicate", fmt.Sprintf("vertex %d appears in two components", i), detail())
			}
			if vm.kind == 3 || vm.kind == 5 {
				// pointer vertices: the component lists hold the graph's
				// CURRENT vertices, not an object that AddOverwrite replaced
				if v != vs[i] {
					res.violate("C20", "scc-stale-vertex", fmt.Sprintf("StronglyConnected lists an object for vertex %d that is no longer the graph's vertex (it was overwritten)", i), detail())
				}
			}
			compOf[i] = ci
		}
	}
	if len(compOf) != n {
		res.violate("C20", "scc-missing", fmt.Sprintf("components cover %d of %d vertices", len(compOf), n), detail())
	} else {
		for a := 0; a < n; a++ {
			for b := a + 1; b < n; b++ {
				mutual := reach[a][b] && reach[b][a]
				if mutual != (compOf[a] == compOf[b]) {
					res.violate("C20", "scc-partition", fmt.Sprintf("vertices %d and %d: mutually reachable = %v, same component = %v", a, b, mutual, compOf[a] == compOf[b]), detail())
				}
			}
		}
	}
	res.obs("scc_partitions_checked", 1)
}

func runC20(c *CaseCtx) (res CaseResult) {
	r := caseRand(c.Seed, "C20", c.Idx)
	if c.Tier == "thorough" && c.Idx <= exhaustChunks {
		lo, hi := c.Idx*1024+260, (c.Idx+1)*1024+260
		if c.Idx == 0 {
			lo = 0
		}
		if hi > smallGraphCount() {
			hi = smallGraphCount()
		}
		res.Key = fmt.Sprintf("exhaustive %d-%d", lo, hi)
		res.NonTrivial = true
		vm := &vertexMaker{kind: c.Idx % nVertexKinds}
		for i := lo; i < hi; i++ {
			ref := smallGraph(i)
			checkTraversals(ref, vm, r, &res, func() interface{} { return map[string]interface{}{"graph": ref.String(), "exhaustive": true} })
			res.obs("exhaustive_small_graphs", 1)
		}
		return res
	}
	if c.Idx%10 == 9 {
		return runLiveGraph(c, r, "C20")
	}
	ref := randomRef(r, 10)
	if c.Idx%41 == 17 {
		// a LONG cycle (17-40 vertices in a ring, shuffled numbering) with a
		// few chords, side branches and a second, smaller ring hanging off it:
		// searches go dozens of vertices deep before a component closes
		ref = longCycleRef(c.Idx)
		res.obs("long_cycle_graphs", 1)
	}
	vm := &vertexMaker{kind: r.Intn(nVertexKinds)}
	if c.Idx%13 == 5 {
		vm.kind = kindUncomparable
		res.obs("graphs_over_uncomparable_vertices", 1)
	}
	res.Key = ref.String()
	ne := 0
	for i := range ref.w {
		for _, w := range ref.w[i] {
			if w >= 0 {
				ne++
			}
		}
	}
	res.NonTrivial = ref.n >= 3 && ne >= 2
	reps := tierReps(c.Tier, 2, 4)
	func() {
		defer func() {
			if p := recover(); p != nil {
				res.violate("C20", "panic/"+crashKey(fmt.Sprint(p)), fmt.Sprintf("traversal panicked: %v", p), map[string]interface{}{"graph": ref.String()})
			}
		}()
		for k := 0; k < reps; k++ {
			checkTraversals(ref, vm, r, &res, func() interface{} {
				return map[string]interface{}{"graph": ref.String(), "vertex_kind": vm.kind}
			})
		}
	}()
	if ref.cyclic() {
		res.obs("cyclic_graphs", 1)
	} else {
		res.obs("acyclic_graphs", 1)
	}
	res.Sample = map[string]interface{}{"graph": ref.String(), "vertex_kind": vm.kind}
	return res
}

// runC18History: searches interleaved with mutations on ONE graph object and
// its reversed views — every search must reflect the graph as it is at that
// moment (no state may survive from an earlier search or be cached behind a
// view).
func runC18History(c *CaseCtx, r *rand.Rand) (res CaseResult) {
	ref := randomRef(r, 7)
	vm := &vertexMaker{kind: r.Intn(nVertexKinds)}
	g, vs := buildGraph(ref, vm, r)
	n := ref.n
	var trace []string
	det := func() interface{} {
		return map[string]interface{}{"graph_now": ref.String(), "vertex_kind": vm.kind, "history": strings.Join(trace, " ; ")}
	}
	defer func() {
		if p := recover(); p != nil {
			res.violate("C18", "panic/"+crashKey(fmt.Sprint(p)), fmt.Sprintf("search history panicked: %v", p), det())
		}
	}()
	rv := g.Reverse()
	// the reversed reference
	rev := func() *refGraph {
		t := newRef(n)
		for i := 0; i < n; i++ {
			for j := 0; j < n; j++ {
				t.w[j][i] = ref.w[i][j]
			}
		}
		return t
	}
	nops := 4 + r.Intn(16)
	searches := 0
	for k := 0; k < nops; k++ {
		if c.Idx%3 == 1 && k == nops/2 {
			// halfway through, the history moves on to a COPY of the graph
			// (and a view of the copy): same content, its own state
			g = g.Copy()
			rv = g.Reverse()
			trace = append(trace, "continue-on-a-copy")
			res.obs("histories_continued_on_a_copy", 1)
		}
		switch op := r.Intn(6); {
		case op <= 2: // search through the graph, the kept view, or a fresh view
			src := r.Intn(n)
			before := len(res.Violations)
			switch r.Intn(3) {
			case 0:
				trace = append(trace, fmt.Sprintf("g.Dijkstra(%d)", src))
				checkDijkstra(g, ref, vs, vm, src, ref.floyd(), &res, "C18", det)
			case 1:
				trace = append(trace, fmt.Sprintf("view.Dijkstra(%d)", src))
				rr := rev()
				checkDijkstra(rv, rr, vs, vm, src, rr.floyd(), &res, "C18", det)
			default:
				trace = append(trace, fmt.Sprintf("g.Reverse().Dijkstra(%d)", src))
				rr := rev()
				checkDijkstra(g.Reverse(), rr, vs, vm, src, rr.floyd(), &res, "C18", det)
			}
			searches++
			res.Evals++
			if len(res.Violations) > before {
				for i := before; i < len(res.Violations); i++ {
					res.Violations[i].Key = "history/" + res.Violations[i].Key
				}
				res.Key = strings.Join(trace, ";")
				return res
			}
		case op == 3: // (re-)weight or add an edge, through either handle
			a, b, w := r.Intn(n), r.Intn(n), r.Intn(10)
			if r.Intn(2) == 0 {
				g.AddEdgeWeighted(vs[a], vs[b], w)
				trace = append(trace, fmt.Sprintf("g.AddEdgeWeighted(%d,%d,%d)", a, b, w))
			} else {
				rv.AddEdgeWeighted(vs[b], vs[a], w)
				trace = append(trace, fmt.Sprintf("view.AddEdgeWeighted(%d,%d,%d)", b, a, w))
			}
			ref.w[a][b] = w
		case op == 4: // remove an edge
			a, b := r.Intn(n), r.Intn(n)
			if r.Intn(2) == 0 {
				g.RemoveEdge(vs[a], vs[b])
				trace = append(trace, fmt.Sprintf("g.RemoveEdge(%d,%d)", a, b))
			} else {
				rv.RemoveEdge(vs[b], vs[a])
				trace = append(trace, fmt.Sprintf("view.RemoveEdge(%d,%d)", b, a))
			}
			ref.w[a][b] = -1
		default: // detach all edges of a vertex (remove and re-add it)
			v := r.Intn(n)
			g.Remove(vs[v])
			g.Add(vs[v])
			for j := 0; j < n; j++ {
				ref.w[v][j], ref.w[j][v] = -1, -1
			}
			trace = append(trace, fmt.Sprintf("g.Remove(%d);g.Add(%d)", v, v))
		}
	}
	res.Key = strings.Join(trace, ";")
	res.NonTrivial = searches >= 2
	res.obs("search_histories", 1)
	res.obs("searches_in_histories", int64(searches))
	tr := trace
	if len(tr) > 12 {
		tr = tr[:12]
	}
	res.Sample = map[string]interface{}{"history": strings.Join(tr, " ; "), "vertex_kind": vm.kind}
	return res
}

// runC18Long: graphs whose shortest paths have hundreds of edges: a chain of
// 257-420 vertices with small weights, forward shortcuts that cost about as
// much as the stretch of chain they bypass (a little less, the same, a little
// more), and a few backward edges. The reference is the harness's own
// array-based O(n^2) search from each checked source.
func runC18Long(c *CaseCtx, r *rand.Rand) (res CaseResult) {
	n := 257 + r.Intn(164)
	ref := newRef(n)
	prefix := make([]int, n)
	for i := 0; i+1 < n; i++ {
		w := 1
		switch r.Intn(6) {
		case 0:
			w = 0
		case 1:
			w = 2
		}
		ref.w[i][i+1] = w
		prefix[i+1] = prefix[i] + w
	}
	for k := 0; k < n/24; k++ {
		i := r.Intn(n - 2)
		j := i + 2 + r.Intn(minInt(n-i-2, 12))
		w := prefix[j] - prefix[i] + r.Intn(4) - 1
		if w < 0 {
			w = 0
		}
		ref.w[i][j] = w
	}
	// the shape of the classic counter-example: one direct edge over (almost)
	// the whole chain that costs one more than the chain
	ref.w[0][n-1] = prefix[n-1] + 1
	for k := 0; k < 4; k++ {
		i := 1 + r.Intn(n-1)
		ref.w[i][r.Intn(i)] = r.Intn(3)
	}
	res.Key = fmt.Sprintf("long-chain n=%d total=%d case=%d", n, prefix[n-1], c.Idx)
	res.NonTrivial = true
	res.obs("long_chain_graphs", 1)
	single := func(src int) []int {
		dist := make([]int, n)
		done := make([]bool, n)
		for i := range dist {
			dist[i] = inf
		}
		dist[src] = 0
		for {
			u := -1
			for i := 0; i < n; i++ {
				if !done[i] && dist[i] < inf && (u < 0 || dist[i] < dist[u]) {
					u = i
				}
			}
			if u < 0 {
				break
			}
			done[u] = true
			for v := 0; v < n; v++ {
				if w := ref.w[u][v]; w >= 0 && dist[u]+w < dist[v] {
					dist[v] = dist[u] + w
				}
			}
		}
		return dist
	}
	vm := &vertexMaker{kind: r.Intn(nVertexKinds)}
	g, vs := buildGraph(ref, vm, r)
	d := make([][]int, n)
	maxEdges := 0
	for _, src := range []int{0, r.Intn(n / 4)} {
		d[src] = single(src)
		checkDijkstra(g, ref, vs, vm, src, d, &res, "C18", func() interface{} {
			return map[string]interface{}{"graph": res.Key, "family": "long-chain", "vertex_kind": vm.kind}
		})
		res.Evals++
		// how long are the paths really? (edges on the library's path to the last vertex)
		_, edgeTo := g.Dijkstra(vs[src])
		if p := g.EdgeToPath(vs[n-1], edgeTo); len(p)-1 > maxEdges {
			maxEdges = len(p) - 1
		}
		if maxEdges >= 256 {
			res.obs("searches_with_a_shortest_path_of_256_or_more_edges", 1)
		}
	}
	res.max("max_vertices", int64(n))
	res.max("max_edges_on_a_shortest_path", int64(maxEdges))
	res.Sample = map[string]interface{}{"graph": res.Key}
	return res
}
