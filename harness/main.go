package main

import (
	"encoding/json"
	"flag"
	"fmt"
	"os"
	"sort"

	"github.com/hashicorp/go-hclog"
)

func usage() {
	fmt.Fprintln(os.Stderr, "usage: vcheck <PROPERTY> <quick|thorough> | vcheck replay <witness.json> | vcheck case <PROP> <tier> <seed> <idx> | vcheck list")
}

func main() {
	// the library logs through the default hclog logger at trace level;
	// keep it quiet (rendering graphs costs time and tells the monitors nothing)
	hclog.L().SetLevel(hclog.Error)

	if len(os.Args) >= 2 && os.Args[1] == "-worker" {
		fs := flag.NewFlagSet("worker", flag.ExitOnError)
		prop := fs.String("prop", "", "")
		tier := fs.String("tier", "quick", "")
		seed := fs.Int64("seed", 1, "")
		start := fs.Int("start", 0, "")
		step := fs.Int("step", 1, "")
		n := fs.Int("n", 0, "")
		journal := fs.String("journal", "", "")
		fs.Parse(os.Args[2:])
		os.Exit(workerMain(*prop, *tier, *seed, *start, *step, *n, *journal))
	}
	if len(os.Args) < 2 {
		usage()
		os.Exit(2)
	}
	switch os.Args[1] {
	case "list":
		var ids []string
		for id := range monitors {
			ids = append(ids, id)
		}
		sort.Strings(ids)
		for _, id := range ids {
			fmt.Printf("%s quick=%d thorough=%d race=%v\n", id, monitors[id].Cases("quick"), monitors[id].Cases("thorough"), monitors[id].Race)
		}
	case "probe":
		if len(os.Args) < 3 {
			usage()
			os.Exit(2)
		}
		os.Exit(probeMain(os.Args[2]))
	case "replay":
		if len(os.Args) < 3 {
			usage()
			os.Exit(2)
		}
		os.Exit(replayMain(os.Args[2]))
	case "case":
		if len(os.Args) < 6 {
			usage()
			os.Exit(2)
		}
		var seed int64
		var idx int
		fmt.Sscan(os.Args[4], &seed)
		fmt.Sscan(os.Args[5], &idx)
		os.Exit(caseMain(os.Args[2], os.Args[3], seed, idx))
	default:
		tier := "quick"
		if len(os.Args) >= 3 {
			tier = os.Args[2]
		} else if t := os.Getenv("VERIF_TIER"); t != "" {
			tier = t
		}
		if tier != "quick" && tier != "thorough" {
			usage()
			os.Exit(2)
		}
		os.Exit(parentMain(os.Args[1], tier))
	}
}

// caseMain runs one case in this process, verbosely.
func caseMain(prop, tier string, seed int64, idx int) int {
	m := monitors[prop]
	if m == nil {
		fmt.Fprintln(os.Stderr, "unknown property", prop)
		return 2
	}
	installHooks()
	ctx := &CaseCtx{Prop: prop, Tier: tier, Seed: seed, Idx: idx, Verbose: true}
	res := runCaseRecover(m, ctx)
	b, _ := json.MarshalIndent(res, "", " ")
	fmt.Println(string(b))
	if len(res.Violations) > 0 {
		for _, v := range res.Violations {
			fmt.Printf("VIOLATION property=%s key=%s: %s\n", v.Prop, v.Key, v.Msg)
		}
		return 1
	}
	return 0
}

// replayMain re-runs the case recorded in a witness file.
func replayMain(path string) int {
	b, err := os.ReadFile(path)
	if err != nil {
		fmt.Fprintln(os.Stderr, err)
		return 2
	}
	var w struct {
		Property string `json:"property"`
		Check    string `json:"found_by_check"`
		Tier     string `json:"tier"`
		Seed     int64  `json:"seed"`
		Msg      string `json:"msg"`
		Detail   struct {
			Case *int `json:"case"`
		} `json:"detail"`
	}
	if err := json.Unmarshal(b, &w); err != nil {
		fmt.Fprintln(os.Stderr, err)
		return 2
	}
	fmt.Printf("witness: property=%s found by check %s (%s, seed %d)\n%s\n", w.Property, w.Check, w.Tier, w.Seed, w.Msg)
	if w.Detail.Case == nil {
		fmt.Println("(witness carries no case index; nothing to re-run)")
		return 0
	}
	rc := 0
	// the failing tie-break may need several attempts (map order)
	for i := 0; i < 10; i++ {
		if caseMain(w.Check, w.Tier, w.Seed, *w.Detail.Case) != 0 {
			rc = 1
			break
		}
	}
	return rc
}
