module verifharness

go 1.23

require (
	github.com/anishathalye/porcupine v1.3.0
	github.com/hashicorp/go-argmapper v0.0.0
	github.com/hashicorp/go-hclog v0.14.0
	github.com/hashicorp/go-multierror v1.1.0
)

require (
	github.com/fatih/color v1.7.0 // indirect
	github.com/hashicorp/errwrap v1.0.0 // indirect
	github.com/mattn/go-colorable v0.1.4 // indirect
	github.com/mattn/go-isatty v0.0.10 // indirect
	golang.org/x/sys v0.0.0-20191008105621-543471e840be // indirect
)

replace github.com/hashicorp/go-argmapper => /repo
