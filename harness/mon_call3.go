package main

import (
	"bytes"
	"errors"
	"fmt"
	"math/rand"
	"os"
	"os/exec"
	"reflect"
	"runtime/debug"
	"strings"
	"time"

	am "github.com/hashicorp/go-argmapper"
)

// ---------------------------------------------------------------------------
// C13
// ---------------------------------------------------------------------------

func runC13(c *CaseCtx) (res CaseResult) {
	r := caseRand(c.Seed, "C13", c.Idx)
	if c.Idx%50 == 13 {
		return runTwinInterfaces(c, r, true)
	}
	if c.Idx%10 == 7 {
		// history on one Func with a subtyped default: the error of the call
		// that lacks the critical value lists that call's own inputs only
		runDefaultsHistory(c, r, &res, func(sMiss *Scenario, cf *callFacts, in *Inst, o *Outcome) {
			var hop []Label
			for _, p := range sMiss.Target.In {
				if hopeless(sMiss, p) {
					hop = append(hop, p)
				}
			}
			// whatever the shape: a value that was supplied to another
			// call only is never one of this call's inputs
			var ue *am.ErrArgumentUnsatisfied
			if o.Err != nil && errors.As(o.Err, &ue) {
				res.obs("history_errors_inspected", 1)
				for _, v := range ue.Inputs {
					id, _ := idOf(v.Value)
					if org := in.W.Origin(id); id > 0 && org != nil && org.Kind == OInput && org.Call != -1 && org.Call != in.LastCall {
						res.violate("C13", "inputs-list-foreign-value", fmt.Sprintf("Inputs lists %s:%v/%s = #%d, which was supplied to call %d only (this is call %d)", v.Name, v.Type, v.Subtype, id, org.Call, in.LastCall),
							map[string]interface{}{"scenario": sMiss.String(), "err": firstLine(errStr(o.Err))})
					}
				}
			}
			if len(hop) == 0 {
				res.obs("history_calls_without_a_hopeless_parameter", 1)
				return
			}
			c13Inspector(sMiss, cf, hop, &res)(in, o)
		})
		return res
	}
	// base scenario over T0..T3 (+ interfaces), hopeless parameter over T4/T5
	g := defaultCfg
	g.NTypes = 4
	var s Scenario
	if r.Intn(3) == 0 {
		s, _ = Constructive(r, ChainCfg{MaxTgt: 2, MaxDepth: 3, MultiIn: true, Distract: 2, BuiltP: 0.1, Subtypes: true, Ifaces: true, ErrP: 0.3, DistractIn: 2})
		// constructive scenarios range over all six types: strip labels of T4/T5
		strip := func(ls []Label) []Label {
			var out []Label
			for _, l := range ls {
				if l.Type == 4 || l.Type == 5 {
					l.Type = r.Intn(4)
				}
				out = append(out, l)
			}
			return out
		}
		s.Inputs = strip(s.Inputs)
		seen := map[string]bool{}
		var ins []Label
		for _, l := range s.Inputs {
			if !seen[inputKey(l)] {
				seen[inputKey(l)] = true
				ins = append(ins, l)
			}
		}
		s.Inputs = ins
		for i := range s.Convs {
			s.Convs[i].In = strip(s.Convs[i].In)
			s.Convs[i].Out = strip(s.Convs[i].Out)
			if !wellFormedList(s.Convs[i].In) || !wellFormedList(s.Convs[i].Out) {
				s.Convs[i].In = s.Convs[i].In[:minInt(1, len(s.Convs[i].In))]
				s.Convs[i].Out = s.Convs[i].Out[:1]
			}
			s.Convs[i].InForm = pickStructForm(s.Convs[i].InForm, s.Convs[i].In, r)
			s.Convs[i].OutForm = pickStructForm(s.Convs[i].OutForm, s.Convs[i].Out, r)
		}
		s.Target.In = strip(s.Target.In)
		if !wellFormedList(s.Target.In) {
			s.Target.In = s.Target.In[:1]
		}
	} else {
		s = g.Scenario(r)
	}
	// sometimes give a sibling parameter an exactly matching input
	if len(s.Target.In) > 0 && r.Intn(2) == 0 {
		p := pick(r, s.Target.In)
		if !isIface(p.Type) {
			k := inputKey(p)
			dup := false
			for _, l := range s.Inputs {
				if inputKey(l) == k {
					dup = true
				}
			}
			if !dup {
				s.Inputs = append(s.Inputs, p)
			}
		}
	}
	// the hopeless parameter(s)
	nh := 1 + r.Intn(2)
	var hop []Label
	for i := 0; i < nh; i++ {
		h := Label{Type: 4 + i}
		if r.Intn(2) == 0 {
			h.Name = pick(r, []string{"a", "b", "c", "h"})
		}
		if r.Intn(3) == 0 {
			h.Sub = pick(r, []string{"x", "y"})
		}
		if c.Idx%11 == 5 {
			// free-form labels that look like formatting verbs
			if h.Name != "" {
				h.Name += "%d"
			}
			if h.Sub != "" {
				h.Sub = "50%s" + h.Sub
			}
		}
		hop = append(hop, h)
	}
	for _, h := range hop {
		pos := r.Intn(len(s.Target.In) + 1)
		nl := append(append(append([]Label{}, s.Target.In[:pos]...), h), s.Target.In[pos:]...)
		for tries := 0; !wellFormedList(nl) && tries < 5; tries++ {
			h.Name = "h" + h.Name
			nl = append(append(append([]Label{}, s.Target.In[:pos]...), h), s.Target.In[pos:]...)
		}
		s.Target.In = nl
	}
	hop = hop[:0]
	for _, p := range s.Target.In {
		if p.Type >= 4 && p.Type < nConcrete {
			hop = append(hop, p)
		}
	}
	s.Target.InForm = pickStructForm(s.Target.InForm, s.Target.In, r)
	if r.Intn(5) == 0 {
		// same model over unnamed / mutually assignable / func / chan types
		var hopIdx []int
		for i, p := range s.Target.In {
			if p.Type >= 4 && p.Type < nConcrete {
				hopIdx = append(hopIdx, i)
			}
		}
		s = exoticize(s, r)
		hop = hop[:0]
		for _, i := range hopIdx {
			hop = append(hop, s.Target.In[i])
		}
		res.obs("cases_over_exotic_types", 1)
	}
	dedupeTypes(&s)
	fixDelivery(&s, r)
	if r.Intn(4) == 0 {
		// two distinct converters of ONE Go function type: both are supplied
		// converters and both must be listed
		d := posFn([]int{r.Intn(4)}, []int{r.Intn(4)})
		d2 := d
		if r.Intn(2) == 0 {
			d2.Deliver = DelRaw
		}
		s.Convs = append(s.Convs, d, d2)
		s.AllowDup = true
		res.obs("cases_with_same_typed_converters", 1)
	}
	if c.Idx%6 == 1 {
		// a supplied converter WITHOUT output values (a validator: func(T)
		// error or func(T)): never of use, still one of the supplied
		// converters the error lists
		v := FuncSpec{In: []Label{{Type: c.Idx % 4}}, InForm: FormPos, OutForm: FormPos, HasErr: c.Idx%12 == 1, Deliver: DelFunc}
		if c.Idx%18 == 1 {
			v.Deliver = DelRaw
		}
		s.Convs = append(s.Convs, v)
		res.obs("cases_with_a_converter_without_outputs", 1)
	}
	res.Key = s.Key()
	res.NonTrivial = len(s.Target.In) >= 2 || len(s.Convs) > 0

	cf := factsOf(&s)
	for _, h := range hop {
		if !hopeless(&s, h) {
			res.Inconclusive = "generator: parameter not hopeless"
			return res
		}
	}
	reps := tierReps(c.Tier, 2, 4)
	inspect := c13Inspector(&s, &cf, hop, &res)
	zero := -1
	if len(s.Inputs) > 0 && r.Intn(4) == 0 {
		// one supplied value is the zero value of its type (for the exotic
		// types a typed nil slice / pointer / map / func / channel): it is
		// a supplied value all the same
		zero = r.Intn(len(s.Inputs))
		res.obs("cases_with_a_zero_valued_input", 1)
	}
	onceTarget := r.Intn(8) == 0
	if onceTarget {
		// a run-once TARGET that has already executed (every parameter was
		// supplied directly to an earlier call): the call with the hopeless
		// parameter fails with the same accurate error
		s.Target.Once = true
		for _, cv := range s.Convs {
			if cv.Once {
				onceTarget = false
			}
		}
		if !onceTarget {
			s.Target.Once = false
		} else {
			res.obs("cases_with_a_memoized_run_once_target", 1)
		}
	}
	outs, _ := runScenarioX(c, s, r, reps, &res, func(in *Inst) {
		in.ZeroInput1 = zero + 1
		// one case in five hands the inputs over as ValueSet.Args()
		in.ViaSet = c.Idx%5 == 2
		// one case in seven first supplies an overridden value per name
		// (spelled in upper case): only the live values are inputs
		in.StaleUpper = c.Idx%7 == 3
		// one case in nine passes all type-only inputs through ONE
		// Typed(nil, a, nil, b) option
		in.GroupTyped = c.Idx%9 == 4
		if onceTarget {
			args := append([]am.Arg{}, in.ConvArgs...)
			for i, p := range s.Target.In {
				conc := concreteFor(p.Type, r)
				src := Label{Name: p.Name, Type: conc, Sub: p.Sub}
				if isIface(p.Type) {
					src.Name = ""
				}
				args = append(args, InputArg(src, in.W.FreshInput(90, 600+i, src)))
			}
			DoCall(in.W, in.Target.Func, args)
			res.Evals++
		}
	}, func(in *Inst, o *Outcome) {
		inspect(in, o)
		if r.Intn(4) != 0 {
			return
		}
		// the same target signature once more, its default options and those
		// of an unrelated function being prefixes of ONE caller-owned list:
		// what the other function is given must not show up in this error
		list := make([]am.Arg, 0, 8)
		list = append(list, am.FuncName("other"), am.FuncName("target"))
		in.W.NextDefaults = list[:2]
		tspec := s.Target
		tB, err := in.W.Build(-30, tspec, r)
		if err != nil {
			return
		}
		in.W.NextDefaults = list[:1]
		other, err := in.W.Build(-31, FuncSpec{In: []Label{{Type: 0}}, InForm: FormPos, OutForm: FormPos}, r)
		if err != nil {
			return
		}
		for k := 1; k <= 2; k++ {
			y := Label{Name: "leak", Type: 0, Sub: "q"}
			DoCall(in.W, other.Func, []am.Arg{InputArg(Label{Type: 0}, in.W.FreshInput(10+k, 800, Label{Type: 0})), InputArg(y, in.W.FreshInput(10+k, 801, y))})
			o2 := DoCall(in.W, tB.Func, in.AllArgs(20+k, r))
			res.Evals += 2
			inspect(in, &o2)
			res.obs("errors_inspected_after_foreign_call", 1)
		}
	})
	_ = outs
	res.Sample = sampleOf(s, outs)
	return res
}

func c13Inspector(s *Scenario, cf *callFacts, hop []Label, res *CaseResult) func(in *Inst, o *Outcome) {
	return func(in *Inst, o *Outcome) {
		det := map[string]interface{}{"scenario": s.String(), "class": o.Class, "err": firstLine(errStr(o.Err))}
		var ue *am.ErrArgumentUnsatisfied
		if o.Err == nil || !errors.As(o.Err, &ue) {
			res.violate("C13", "wrong-error-type", fmt.Sprintf("hopeless parameter but the error is %T (class %s)", o.Err, o.Class), det)
			return
		}
		toLabel := func(v *am.Value) Label { return Label{Name: v.Name, Type: typeIndex(v.Type), Sub: v.Subtype} }
		// Args ⊇ hopeless, ⊆ declared & not MUST-derivable
		got := map[Label]bool{}
		for _, a := range ue.Args {
			l := toLabel(a)
			got[l] = true
			declared := -1
			for i, p := range s.Target.In {
				if p == l {
					declared = i
				}
			}
			if declared < 0 {
				res.violate("C13", "args-not-a-parameter", fmt.Sprintf("Args lists %v which is not a parameter of the target", l), det)
				continue
			}
			if cf.fMust.TargetOK[declared] {
				res.violate("C13", "args-derivable", fmt.Sprintf("Args lists %v although it is derivable", l), det)
			}
		}
		for _, h := range hop {
			if !got[h] {
				res.violate("C13", "args-missing-hopeless", fmt.Sprintf("Args does not contain the hopeless parameter %v", h), det)
			}
		}
		// Inputs multiset
		want := map[Label]int{}
		for _, l := range s.Inputs {
			want[l]++
		}
		have := map[Label]int{}
		for _, v := range ue.Inputs {
			have[toLabel(v)]++
		}
		if !reflect.DeepEqual(want, have) {
			res.violate("C13", "inputs-differ", fmt.Sprintf("Inputs = %v, supplied = %v", have, want), det)
		}
		// Converters
		for i, b := range in.Convs {
			switch b.Spec.Deliver {
			case DelFunc:
				found := false
				for _, f := range ue.Converters {
					if f == b.Func {
						found = true
					}
				}
				if !found {
					res.violate("C13", "converter-missing", fmt.Sprintf("Converters lacks c%d (supplied through ConverterFunc)", i), det)
				}
			case DelRaw:
				// raw functions are wrapped in a fresh Func: match by Go type
				// and multiplicity (number of supplied converters of that type)
				want, have := 0, 0
				for _, b2 := range in.Convs {
					if b2.Type == b.Type && b2.Spec.Deliver != DelGen {
						want++
					}
				}
				for _, f := range ue.Converters {
					if f != nil && reflect.TypeOf(f.Func()) == b.Type {
						have++
					}
				}
				if have < want {
					res.violate("C13", "converter-missing", fmt.Sprintf("Converters lists %d function(s) of the Go type of raw converter c%d, %d were supplied", have, i, want), det)
				}
			}
		}
		// message
		msg := o.Err.Error()
		for _, a := range ue.Args {
			if !strings.Contains(msg, a.Type.String()) || (a.Name != "" && !strings.Contains(msg, a.Name)) {
				res.violate("C13", "message-omits-argument", fmt.Sprintf("Error() does not mention missing argument %v", toLabel(a)), det)
			}
		}
		res.obs("errors_inspected", 1)
		res.obs("args_listed", int64(len(ue.Args)))
	}
}

// pickStructForm keeps form if it can carry the labels, else picks a struct form.
func pickStructForm(form int, ls []Label, r *rand.Rand) int {
	if form == FormBuilt {
		return form
	}
	if len(ls) == 0 {
		return FormPos
	}
	if form == FormPos {
		for _, l := range ls {
			if l.Name != "" || l.Sub != "" {
				return 1 + r.Intn(2)
			}
		}
	}
	return form
}

// ---------------------------------------------------------------------------
// C06 — calls always return
// ---------------------------------------------------------------------------

// randomFilter returns a FilterFunc accepting a random subset of types built
// from the library's combinators, plus the accepted set.
func randomFilter(r *rand.Rand) (am.FilterFunc, map[int]bool) {
	acc := map[int]bool{}
	var fs []am.FilterFunc
	for t := 0; t < nTypes; t++ {
		if r.Intn(3) == 0 {
			fs = append(fs, am.FilterType(types[t]))
			acc[t] = true
			if isIface(t) {
				for c := 0; c < nTypes; c++ {
					if implements(c, t) {
						acc[c] = true
					}
				}
			}
		}
	}
	switch r.Intn(3) {
	case 0:
		return am.FilterOr(fs...), acc
	case 1:
		a := acc
		return func(v am.Value) bool { return a[typeIndex(v.Type)] }, acc
	default:
		// FilterAnd of (Or(fs), always-true)
		return am.FilterAnd(am.FilterOr(fs...), func(am.Value) bool { return true }), acc
	}
}

// declaredInputs returns the declared inputs of a function as labels.
func declaredInputs(f *am.Func) []Label {
	var out []Label
	for _, v := range f.Input().Values() {
		out = append(out, Label{Name: v.Name, Type: typeIndex(v.Type), Sub: v.Subtype})
	}
	return out
}

// redefinedArgs supplies a fresh value for every declared input of rf.
func redefinedArgs(w *World, rf *am.Func, call int, r *rand.Rand) ([]am.Arg, []Label, []int64) {
	var args []am.Arg
	var labels []Label
	var ids []int64
	for i, v := range rf.Input().Values() {
		t := typeIndex(v.Type)
		if t < 0 {
			continue
		}
		conc := concreteFor(t, r)
		l := Label{Name: v.Name, Type: conc, Sub: v.Subtype}
		if isIface(t) {
			// a named requirement of an interface type is only matched by a
			// type-only value of an implementing type
			l.Name = ""
		}
		id := w.FreshInput(call, 1000+i, l)
		val := mk(conc, id).Interface()
		args = append(args, am.NamedSubtype(l.Name, val, v.Subtype))
		labels = append(labels, l)
		ids = append(ids, id)
	}
	return args, labels, ids
}

func init() {
	register(&Monitor{
		ID:    "C06",
		Cases: func(t string) int { return tierN(t, 8000, 200000) },
		Rule: "well-formed scenarios from G-general (positional lists repeating a type, all forms, run-once, generated converters), hostile families (mutual recursion through 2-3 multi-input converters, self-consuming converters, " +
			"typed-with-subtype next to named parameters, providers, same-name chains) and constructive DAGs/cycles; per repetition the monitor drives Call, Convert(random type), Redefine(random filter) and a call of the redefined function; " +
			"oracle: no recovered panic, no worker death, reachTarget nesting depth <= 8*(F+2) and <= 10^6 entries per API call (hook counters); a separate family feeds malformed options " +
			"(nil option, Named/Typed(nil), ConverterFunc(nil), Converter(42), Converter(nil), NewFunc(nil), generator returning an error or (nil,nil), ConverterGen(nil), Logger(nil)) and requires error-or-ignore. " +
			"One case in eight uses value names that are not Go identifiers, one in eight exotic types (unnamed, mutually assignable, func, chan); one case in 45 is concurrent: calls that need two shared run-once converters in opposite nesting order must all return (deadlock verdict by goroutine state, see C11). " +
			"non-trivial = the case has >= 2 converters or belongs to a hostile/malformed family",
		Assumptions: []string{
			"'never fails to terminate' is restated as bounded progress: recursion-depth and resolver-step bounds observed through the verif hook, plus process survival; the wall-clock watchdog alone is inconclusive",
			"variadic functions and lists repeating a name or a type-only struct field type are outside the property and never generated",
		},
		Run: runC06,
		Floor: func(tier string, a *Agg) string {
			if a.Obs["api.redefine"] < 500 || a.Obs["api.convert"] < 500 || a.Obs["malformed_cases"] < 100 {
				return "too few Redefine/Convert/malformed executions"
			}
			return ""
		},
	})
}

func runC06(c *CaseCtx) (res CaseResult) {
	r := caseRand(c.Seed, "C06", c.Idx)
	if c.Idx == 6 {
		runTraceSelfRefProbe(&res)
	}
	if c.Idx%45 == 7 {
		// concurrent calls that need two shared run-once converters in
		// opposite nesting order: every call returns (see C11)
		return runCrossNestedOnce(c, r)
	}
	if c.Idx%45 == 29 {
		// histories over a dependency cycle of (run-once) multi-input converters
		return runOnceCycleHistory(c, r)
	}
	if r.Intn(100) < 12 {
		return runC06Malformed(c, r)
	}
	denseCases = c.Tier == "thorough"
	s, fam := pickGeneralMix(r)
	if c.Idx%8 == 5 {
		// value names that are not Go identifiers (legal in a struct tag)
		s = oddNames(s)
		res.obs("odd_name_cases", 1)
	}
	res.Key = s.Key()
	if usesExotic(s) {
		res.obs("cases_over_exotic_types", 1)
	}
	res.NonTrivial = len(s.Convs) >= 2 || strings.HasPrefix(fam, "hostile")
	res.obs("family."+fam, 1)
	meter := &depthMeter{limitDepth: 8 * (len(s.Convs) + 3), limitEntries: 1000000}
	casePointHook = meter.hook
	reps := tierReps(c.Tier, 3, 5)
	cf := factsOf(&s)
	det := func(api string, o *Outcome) interface{} {
		return map[string]interface{}{"scenario": s.String(), "api": api, "class": o.Class, "panic": o.Panic, "err": firstLine(errStr(o.Err))}
	}
	note := func(api string, o *Outcome) {
		res.Evals++
		res.obs("api."+api, 1)
		res.obs("class."+api+"."+o.Class, 1)
		res.max("max_reach_depth", int64(meter.maxDepth))
		res.max("max_reach_entries", int64(meter.entries))
		if o.Class == ClsPanic {
			key := "panic/" + crashKey(o.Panic)
			if meter.tripped != "" {
				key = "bound/" + meter.tripped
			}
			res.violate("C06", key, api+" panicked: "+o.Panic, det(api, o))
		}
		meter.reset()
	}
	zeroErrs := 0
	if r.Intn(6) == 0 {
		// failing bodies return non-nil errors whose dynamic value is a zero
		// value of a kind that cannot be nil (struct, int, string) or a typed nil pointer
		zeroErrs = 1 + r.Intn(4)
		res.obs("cases_with_zero_valued_error_values", 1)
		for i := range s.Convs {
			if s.Convs[i].HasErr && r.Intn(2) == 0 {
				s.Convs[i].Fail = true
			}
		}
	}
	if zeroErrs == 0 && (c.Idx/3)%11 == 5 {
		// failing bodies return an error value of a type that is not
		// comparable (index-determined, no PRNG draw)
		zeroErrs = 7
		res.obs("cases_with_uncomparable_error_values", 1)
		for i := range s.Convs {
			if s.Convs[i].HasErr && (i+c.Idx)%2 == 0 {
				s.Convs[i].Fail = true
			}
		}
	}
	for k := 0; k < reps; k++ {
		in, err := Instantiate(s, r)
		if err == nil {
			in.W.ZeroErrors = zeroErrs
		}
		if err != nil {
			if err == errDupType {
				res.Skip = "dup-go-type"
			} else {
				res.violate("C06", "newfunc-rejected", "NewFunc/BuildFunc rejected a well-formed generated function: "+err.Error(), map[string]interface{}{"scenario": s.String()})
			}
			return res
		}
		// one case in ten: an unrelated supplied value that contains itself
		// (a legal Go value; formatting it with %v never terminates)
		// (cases that log at trace level ask the library to render every value
		// as text: that combination is decided by runTraceSelfRefProbe, in a
		// process of its own)
		var cyc []am.Arg
		if c.Idx%10 == 3 && !caseTrace {
			l := xCyc{nil, 7}
			l[0] = l
			cyc = []am.Arg{am.Typed(l)}
			if r.Intn(2) == 0 {
				cyc = append(cyc, am.Named("zzcyc", selfRefNode()))
			}
			if k == 0 {
				res.obs("cases_with_a_self_referential_value", 1)
			}
		}
		if c.Idx%20 == 11 {
			// a generator that manufactures, for every value it is shown, a
			// converter to a NEW type (slice of the value's type): the
			// generator pass must still come to an end
			cyc = append(cyc, am.ConverterGen(addressOfGenerator))
			if k == 0 {
				res.obs("cases_with_a_type_manufacturing_generator", 1)
			}
		}
		// Call
		o := DoCall(in.W, in.Target.Func, append(in.AllArgs(0, r), cyc...))
		note("call", &o)
		checkCall(in, &o, &cf, 0, 0, &res)
		// Convert to a random type
		tt := r.Intn(nTypes)
		n0 := in.W.NumEvents()
		o2 := DoConvert(in.W, types[tt], append(in.AllArgs(1, r), cyc...))
		note("convert", &o2)
		for _, msg := range checkBinding(in.W, o2.Events, BindingOpts{AllowedCalls: map[int]bool{1: true}, MinSeq: n0}) {
			res.violate("C01", "binding/"+bindingKind(msg), "Convert: "+msg, det("convert", &o2))
		}
		// Redefine with a random filter, then call the result
		var ropts []am.Arg
		ropts = append(ropts, in.AllArgs(2, r)...)
		ropts = append(ropts, cyc...)
		if r.Intn(3) != 0 {
			f, _ := randomFilter(r)
			ropts = append(ropts, am.FilterInput(f))
		}
		if r.Intn(4) == 0 {
			f, _ := randomFilter(r)
			ropts = append(ropts, am.FilterOutput(f))
		}
		o3 := DoRedefine(in.W, in.Target.Func, ropts)
		note("redefine", &o3)
		if len(o3.Events) > 0 {
			res.violate("C09", "executed-during-redefine", fmt.Sprintf("%d generated bodies executed during Redefine: %s", len(o3.Events), eventsStr(o3.Events)), det("redefine", &o3))
		}
		if o3.Func != nil && o3.Class == ClsOK {
			args, lbls, ids := redefinedArgs(in.W, o3.Func, 2, r)
			n1 := in.W.NumEvents()
			o4 := DoCall(in.W, o3.Func, args)
			if c.Verbose {
				fmt.Printf("redefined inputs: %v ids %v (original input ids %v)\n  class=%s err=%s\n  events: %s\n", lbls, ids, in.InputIDs, o4.Class, firstLine(errStr(o4.Err)), eventsStr(o4.Events))
			}
			note("call-redefined", &o4)
			for _, msg := range checkBinding(in.W, o4.Events, BindingOpts{AllowedCalls: map[int]bool{2: true}, MinSeq: n1, Via: declaredInputs(o3.Func)}) {
				res.violate("C01", "binding/"+bindingKind(msg), "redefined function: "+msg, det("call-redefined", &o4))
			}
		}
	}
	res.Sample = map[string]interface{}{"scenario": s.String(), "family": fam}
	return res
}

// runC06Malformed: malformed options must be ignored or reported, never panic.
func runC06Malformed(c *CaseCtx, r *rand.Rand) (res CaseResult) {
	s, _ := genExact(r, r.Intn(2) == 0)
	kind := r.Intn(15)
	kinds := []string{"nil-option", "named-nil", "typed-nil", "converterfunc-nil", "converter-42", "converter-nil", "gen-error", "gen-nil-nil", "newfunc-nonfunc", "gen-nil-func", "logger-nil", "converter-typed-nil-func", "filter-combinator-nil", "filter-type-nil", "converter-typed-nil-funcptr", "convert-nil-type", "recursive-pointer-type"}
	// two kinds are chosen by the case index (the PRNG stream of the other
	// kinds stays what it was)
	switch c.Idx % 17 {
	case 3:
		kind = 15
	case 9:
		kind = 16
	}
	res.Key = kinds[kind] + " " + s.Key()
	res.NonTrivial = true
	res.obs("malformed_cases", 1)
	res.obs("malformed."+kinds[kind], 1)
	in, err := Instantiate(s, r)
	if err != nil {
		res.Skip = "instantiate: " + err.Error()
		return res
	}
	genErr := errors.New("generator failure")
	var bad am.Arg
	wantErr := false
	selectiveGen := false // the generator only fails for one type of value
	switch kind {
	case 0:
		bad, wantErr = nil, true
	case 1:
		bad = am.Named("zz", nil)
	case 2:
		bad = am.Typed(nil, nil)
	case 3:
		bad = am.ConverterFunc(nil, nil)
	case 4:
		bad, wantErr = am.Converter(42), true
	case 5:
		bad, wantErr = am.Converter(nil), true
	case 6:
		bad, wantErr = am.ConverterGen(func(am.Value) (*am.Func, error) { return nil, genErr }), true
		if c.Idx%2 == 0 && len(s.Inputs) > 0 {
			// the generator fails for the values of ONE type only (and has
			// nothing to offer for the others): still a failed resolution
			failT := types[s.Inputs[0].Type]
			bad = am.ConverterGen(func(v am.Value) (*am.Func, error) {
				if v.Type == failT {
					return nil, genErr
				}
				return nil, nil
			})
			res.obs("malformed.gen-error-for-one-type", 1)
			selectiveGen = true
		}
	case 9:
		bad = am.ConverterGen(nil, nil)
	case 10:
		bad = am.Logger(nil)
	case 11:
		// a nil value of a function type is not a function to call
		bad, wantErr = am.Converter((func(T4) T5)(nil)), true
	case 14:
		// a nil *Func is not a function either
		bad, wantErr = am.Converter((*am.Func)(nil)), true
	case 12:
		// nil filter functions inside the combinators (Redefine applies
		// the filters; for Call and Convert the option has no effect)
		if r.Intn(2) == 0 {
			bad = am.FilterInput(am.FilterOr(nil, am.FilterAnd(nil), func(am.Value) bool { return true }))
		} else {
			bad = am.FilterOutput(am.FilterAnd(nil, am.FilterOr(nil, func(am.Value) bool { return true })))
		}
	case 13:
		if r.Intn(2) == 0 {
			bad = am.FilterInput(am.FilterOr(am.FilterType(nil), func(am.Value) bool { return true }))
		} else {
			bad = am.FilterOutput(am.FilterOr(am.FilterType(nil), func(am.Value) bool { return true }))
		}
	case 7:
		bad = am.ConverterGen(func(am.Value) (*am.Func, error) { return nil, nil })
	case 8:
		// construction-time: non-function values
		for _, x := range []interface{}{nil, 42, "s", struct{}{}, make(chan int), []int{1}, (*int)(nil), (func(T0) T1)(nil), (func())(nil)} {
			func() {
				defer func() {
					if p := recover(); p != nil {
						res.violate("C06", "panic/newfunc-nonfunc", fmt.Sprintf("NewFunc(%T) panicked: %v", x, p), nil)
					}
				}()
				f, err := am.NewFunc(x)
				res.Evals++
				if err == nil || f != nil {
					res.violate("C14", "nonfunc-accepted", fmt.Sprintf("NewFunc(%T) did not return an error", x), nil)
				}
				// the same value inside a list of otherwise good functions
				fl, err := am.NewFuncList([]interface{}{func(a T0) T1 { return T1{ID: a.ID} }, x})
				res.Evals++
				if err == nil || fl != nil {
					res.violate("C14", "nonfunc-accepted", fmt.Sprintf("NewFuncList with a %T element did not return an error", x), nil)
				}
			}()
		}
		res.Sample = map[string]interface{}{"malformed": kinds[kind]}
		return res
	}
	det := func(api string, o *Outcome) interface{} {
		return map[string]interface{}{"scenario": s.String(), "malformed": kinds[kind], "api": api, "class": o.Class, "panic": o.Panic, "err": firstLine(errStr(o.Err))}
	}
	if kind == 15 {
		// Convert to a nil target type: an error, not a panic
		o := DoConvert(in.W, nil, in.AllArgs(0, r))
		res.Evals++
		res.obs("api.convert", 1)
		if o.Class == ClsPanic {
			res.violate("C06", "panic/malformed-"+kinds[kind], "Convert(nil, ...) panicked: "+o.Panic, det("convert", &o))
		} else if o.Err == nil {
			res.violate("C06", "malformed-accepted/"+kinds[kind], "Convert(nil, ...) returned no error", det("convert", &o))
		}
		res.Sample = map[string]interface{}{"malformed": kinds[kind]}
		return res
	}
	if kind == 16 {
		runC06RecursivePointer(r, &res)
		return res
	}
	mk := func(call int) []am.Arg {
		args := in.AllArgs(call, r)
		pos := r.Intn(len(args) + 1)
		out := append([]am.Arg{}, args[:pos]...)
		out = append(out, bad)
		return append(out, args[pos:]...)
	}
	check := func(api string, o *Outcome) {
		res.Evals++
		res.obs("api."+api, 1)
		if o.Class == ClsPanic {
			res.violate("C06", "panic/malformed-"+kinds[kind], api+" panicked on a malformed option: "+o.Panic, det(api, o))
			return
		}
		if wantErr && o.Err == nil {
			res.violate("C06", "malformed-accepted/"+kinds[kind], api+" returned no error for a malformed option", det(api, o))
		}
		if wantErr && targetEvents(o.Events) > 0 {
			res.violate("C06", "malformed-target-ran/"+kinds[kind], api+" executed the target despite the malformed option", det(api, o))
		}
		if !wantErr && api == "call" && o.Class != ClsOK {
			res.violate("C06", "malformed-not-ignored/"+kinds[kind], "an ignorable malformed option changed the outcome of an exactly satisfied call: "+o.Class, det(api, o))
		}
		if kind == 6 && o.Err != nil && !errors.Is(o.Err, genErr) && !strings.Contains(o.Err.Error(), genErr.Error()) {
			res.obs("gen_error_not_propagated_verbatim", 1)
		}
	}
	o := DoCall(in.W, in.Target.Func, mk(0))
	check("call", &o)
	if len(s.Target.In) > 0 {
		o2 := DoConvert(in.W, types[s.Target.In[0].Type], mk(1))
		check("convert", &o2)
	}
	o3 := DoRedefine(in.W, in.Target.Func, mk(2))
	check("redefine", &o3)
	// default options on NewFunc
	func() {
		defer func() {
			if p := recover(); p != nil {
				res.violate("C06", "panic/malformed-default-"+kinds[kind], fmt.Sprintf("NewFunc with a malformed default option panicked: %v", p), nil)
			}
		}()
		f, err := am.NewFunc(func(a T0) T0 { return a }, bad)
		res.Evals++
		if err == nil && f != nil {
			o4 := DoCall(nil, f, []am.Arg{am.Typed(T0{ID: 1})})
			if o4.Class == ClsPanic {
				res.violate("C06", "panic/malformed-default-"+kinds[kind], "Call with a malformed default option panicked: "+o4.Panic, nil)
			}
			if wantErr && o4.Err == nil && !selectiveGen {
				// (the selective generator has nothing to object to in this
				// little call unless its type happens to be T0)
				res.violate("C06", "malformed-accepted/default-"+kinds[kind], "malformed default option was neither rejected at construction nor at Call", nil)
			}
		}
	}()
	res.Sample = map[string]interface{}{"malformed": kinds[kind], "scenario": s.String()}
	return res
}

// xSelfPtr is a pointer type that leads back to itself; xPtrA and xPtrB do so
// in two steps. They are legal Go types that never reach a struct.
type xSelfPtr *xSelfPtr
type xPtrA *xPtrB
type xPtrB *xPtrA

// runC06RecursivePointer: functions over pointer types that lead back to
// themselves are analysed, called, converted to and redefined like any other
// (the step hook bounds the analysis of the signature).
func runC06RecursivePointer(r *rand.Rand, res *CaseResult) {
	var fn, val interface{}
	var tgt reflect.Type
	ran := 0
	switch r.Intn(3) {
	case 0:
		var p xSelfPtr
		p = &p
		fn, val, tgt = func(a xSelfPtr, b T0) T1 { ran++; return T1{ID: b.ID} }, p, reflect.TypeOf(p)
	case 1:
		var a xPtrA
		var b xPtrB = &a
		a = &b
		fn, val, tgt = func(x xPtrA, b T0) T1 { ran++; return T1{ID: b.ID} }, a, reflect.TypeOf(a)
	default:
		var b xPtrB
		fn, val, tgt = func(b T0) (xPtrB, T1) { ran++; return nil, T1{ID: b.ID} }, b, reflect.TypeOf(b)
	}
	res.Sample = map[string]interface{}{"malformed": "recursive-pointer-type", "type": tgt.String()}
	defer func() {
		if p := recover(); p != nil {
			key := "panic/recursive-pointer-type"
			if be, ok := p.(boundExceeded); ok {
				key = "bound/" + crashKey(be.msg)
			}
			res.violate("C06", key, fmt.Sprintf("a function over %s: %v", tgt, p), nil)
		}
	}()
	f, err := am.NewFunc(fn)
	res.Evals++
	if err != nil || f == nil {
		res.violate("C06", "newfunc-rejected", fmt.Sprintf("NewFunc rejected a function over %s: %v", tgt, err), nil)
		return
	}
	args := []am.Arg{am.Typed(T0{ID: 3})}
	if reflect.TypeOf(val) == tgt && reflect.TypeOf(fn).NumIn() == 2 {
		args = append(args, am.Typed(val))
	}
	o := DoCall(nil, f, args)
	res.Evals++
	res.obs("api.call", 1)
	if o.Class != ClsOK || ran != 1 {
		res.violate("C06", "recursive-pointer-type/call", fmt.Sprintf("exactly satisfied call of a function over %s: %s %s %v (executions %d)", tgt, o.Class, o.Panic, o.Err, ran), nil)
	}
	o2 := DoConvert(nil, tgt, []am.Arg{am.Typed(val)})
	res.Evals++
	res.obs("api.convert", 1)
	if o2.Class == ClsPanic {
		res.violate("C06", "panic/recursive-pointer-type", "Convert to "+tgt.String()+" panicked: "+o2.Panic, nil)
	}
	o3 := DoRedefine(nil, f, args[:1])
	res.Evals++
	res.obs("api.redefine", 1)
	if o3.Class == ClsPanic {
		res.violate("C06", "panic/recursive-pointer-type", "Redefine of a function over "+tgt.String()+" panicked: "+o3.Panic, nil)
	}
}

// xCyc is a slice type whose values can contain themselves; xCycNode a
// struct that points to itself through an interface field.
type xCyc []interface{}

type xCycNode struct {
	Next interface{}
	Tag  string
}

// probeMain runs one named probe in this process: an operation whose failure
// mode is the death of the process, so that the monitor can watch it from
// outside. It prints PROBE-OK when every operation returned.
func probeMain(name string) int {
	switch name {
	case "trace-selfref":
		debug.SetMaxStack(64 << 20)
		// Call, Convert and Redefine with a trace-level logger and a supplied
		// value that contains itself
		l := xCyc{nil, 7}
		l[0] = l
		f, err := am.NewFunc(func(a T0, b T1) T2 { return T2{ID: a.ID + b.ID} })
		if err != nil {
			fmt.Println("PROBE-SETUP-FAILED", err)
			return 3
		}
		args := []am.Arg{am.Logger(traceLogger), am.Typed(T0{ID: 1}), am.Typed(l)}
		f.Call(append(args, am.Typed(T1{ID: 2}))...)
		fmt.Println("PROBE-STEP call")
		am.Convert(types[0], args...)
		fmt.Println("PROBE-STEP convert")
		f.Redefine(args...)
		fmt.Println("PROBE-STEP redefine")
		fmt.Println("PROBE-OK")
		return 0
	}
	fmt.Println("PROBE-UNKNOWN", name)
	return 2
}

// runTraceSelfRefProbe decides, once per run, the combination the in-process
// workload leaves out: trace-level logging together with a supplied value
// that contains itself. The operation runs in a child process because its
// failure is a fatal stack overflow, which no recover() sees.
func runTraceSelfRefProbe(res *CaseResult) {
	cmd := exec.Command(os.Args[0], "probe", "trace-selfref")
	cmd.Env = append(os.Environ(), "GOTRACEBACK=single")
	var buf bytes.Buffer
	cmd.Stdout, cmd.Stderr = &buf, &buf
	done := make(chan error, 1)
	if err := cmd.Start(); err != nil {
		res.Inconclusive = "probe-not-started"
		return
	}
	go func() { done <- cmd.Wait() }()
	select {
	case err := <-done:
		if err != nil {
			fmt.Fprintf(&buf, "\nPROBE-EXIT %v\n", err)
		}
	case <-time.After(120 * time.Second):
		// watchdog only: its firing is inconclusive, not a verdict
		cmd.Process.Kill()
		<-done
		res.Inconclusive = "probe-watchdog"
		return
	}
	out := buf.String()
	res.obs("trace_logging_self_containing_value_probes", 1)
	switch {
	case strings.Contains(out, "PROBE-OK"):
		res.obs("trace_logging_self_containing_value_probe_returned", 1)
	case strings.Contains(out, "stack overflow") || strings.Contains(out, "goroutine stack exceeds"):
		step := "call"
		if strings.Contains(out, "PROBE-STEP call") {
			step = "convert-or-redefine"
		}
		res.violate("C06", "trace-logger-renders-self-containing-value",
			"with Logger(trace level) and a supplied slice that contains itself, the operation ("+step+") exhausts the stack: fatal error: stack overflow",
			map[string]interface{}{"probe": "vcheck probe trace-selfref", "output_head": head(out, 600)})
	default:
		res.violate("C06", "trace-logger-self-containing-value/other",
			"probe with Logger(trace level) and a self-containing value did not return normally: "+head(out, 300),
			map[string]interface{}{"probe": "vcheck probe trace-selfref", "output_head": head(out, 600)})
	}
}

func head(s string, n int) string {
	if len(s) > n {
		return s[:n]
	}
	return s
}

func selfRefNode() *xCycNode {
	n := &xCycNode{Tag: "self"}
	n.Next = []interface{}{n, map[string]interface{}{"n": n}}
	return n
}

// addressOfGenerator returns, for a value of type T, a converter func(T) []T
// (a new type per value it is shown; slices have no methods, so the new
// values satisfy nothing in the universe and the model is unchanged).
func addressOfGenerator(v am.Value) (*am.Func, error) {
	if v.Type == nil {
		return nil, nil
	}
	st := reflect.SliceOf(v.Type)
	ft := reflect.FuncOf([]reflect.Type{v.Type}, []reflect.Type{st}, false)
	fn := reflect.MakeFunc(ft, func(args []reflect.Value) []reflect.Value {
		return []reflect.Value{reflect.Append(reflect.MakeSlice(st, 0, 1), args[0])}
	})
	return am.NewFunc(fn.Interface())
}
