package main

import (
	"fmt"
	"math/rand"
	"reflect"
	"runtime"
	"sync"

	am "github.com/hashicorp/go-argmapper"
)

// ---------------------------------------------------------------------------
// G-redefine (C08 scope): converters with <= 1 input, no subtypes, each name
// bound to a single type across the whole case.
// ---------------------------------------------------------------------------

type redefCase struct {
	S         Scenario
	InAllowed map[int]bool // nil = no input filter
	OutAllow  map[int]bool // nil = no output filter
	FilterK   int          // how the filter is expressed
	Chain     int          // constructive chain length (0 = random case)
}

func genRedefine(r *rand.Rand) redefCase {
	var rc redefCase
	nT := 5 + r.Intn(2)
	nameType := map[string]int{}
	names := []string{"a", "b", "c", "d"}
	ifaceOK := false
	lab := func(allowName bool) Label {
		l := Label{Type: r.Intn(nT)}
		if ifaceOK && r.Intn(8) == 0 {
			l.Type = randIface(r)
		}
		if allowName && r.Intn(2) == 0 {
			n := pick(r, names)
			if t, ok := nameType[n]; ok {
				l.Type = t
			} else {
				nameType[n] = l.Type
			}
			l.Name = n
		}
		return l
	}
	formOf := func(ls []Label) int {
		for _, l := range ls {
			if l.Name != "" {
				return 1 + r.Intn(2)
			}
		}
		if len(ls) == 0 {
			return FormPos
		}
		return r.Intn(3)
	}
	s := &rc.S
	seen := map[string]bool{}
	for i := r.Intn(3); i > 0; i-- {
		l := lab(true)
		if seen[inputKey(l)] {
			continue
		}
		seen[inputKey(l)] = true
		s.Inputs = append(s.Inputs, l)
	}
	// target (and converters) may use interface types; supplied values are concrete
	ifaceOK = true
	var t FuncSpec
	nmSeen := map[string]bool{}
	tySeen := map[int]bool{}
	for i := 1 + r.Intn(3); i > 0; i-- {
		l := lab(true)
		if l.Name != "" {
			if nmSeen[l.Name] {
				continue
			}
			nmSeen[l.Name] = true
		} else {
			if tySeen[l.Type] {
				continue
			}
			tySeen[l.Type] = true
		}
		t.In = append(t.In, l)
	}
	t.InForm = 1 + r.Intn(2)
	t.OutForm = FormPos
	for i := r.Intn(3); i > 0; i-- {
		t.Out = append(t.Out, Label{Type: r.Intn(nT)})
		if r.Intn(10) == 0 {
			t.Out[len(t.Out)-1].Type = randIface(r)
		}
	}
	if len(t.Out) > 0 && wellFormedList(t.Out) && r.Intn(3) == 0 {
		// results as a struct / pointer to a struct embedding argmapper.Struct
		t.OutForm = 1 + r.Intn(2)
	}
	t.HasErr = r.Intn(2) == 0
	if t.HasErr && r.Intn(8) == 0 {
		t.Fail = true
	}
	if !t.Fail && r.Intn(8) == 0 {
		// a run-once target: the functions derived from it return the
		// results of its one execution
		t.Once = true
	}
	s.Target = t

	mkConv := func(in []Label, out []Label) FuncSpec {
		f := FuncSpec{In: in, Out: out, InForm: formOf(in), OutForm: formOf(out), HasErr: r.Intn(3) == 0}
		if f.HasErr && r.Intn(10) == 0 {
			f.Fail = true
		}
		if r.Intn(8) == 0 {
			f.Once = true
		}
		if r.Intn(8) == 0 && !f.Once {
			f.Deliver = DelRaw
		}
		return f
	}
	if r.Intn(2) == 0 {
		// constructive chain ending at a target parameter; the filter admits
		// the far end only (plus random others)
		p := pick(r, t.In)
		k := 1 + r.Intn(5)
		rc.Chain = k
		cur := p
		used := map[int]bool{p.Type: true}
		for i := 0; i < k; i++ {
			// next type not used so far in the chain
			var free []int
			for tt := 0; tt < nT; tt++ {
				if !used[tt] {
					free = append(free, tt)
				}
			}
			if len(free) == 0 {
				break
			}
			nt := pick(r, free)
			used[nt] = true
			src := Label{Type: nt}
			if r.Intn(3) == 0 {
				for _, n := range names {
					if tt, ok := nameType[n]; !ok || tt == nt {
						nameType[n] = nt
						src.Name = n
						break
					}
				}
			}
			out := cur
			if out.Name != "" && r.Intn(2) == 0 {
				out = Label{Type: cur.Type} // typed output feeding a named value
			}
			s.Convs = append(s.Convs, mkConv([]Label{src}, []Label{out}))
			if r.Intn(4) == 0 {
				// reverse converter: a cycle
				s.Convs = append(s.Convs, mkConv([]Label{{Type: out.Type}}, []Label{{Type: src.Type}}))
			}
			cur = src
		}
		rc.InAllowed = map[int]bool{cur.Type: true}
		for tt := 0; tt < nT; tt++ {
			if r.Intn(4) == 0 {
				rc.InAllowed[tt] = true
			}
		}
		if r.Intn(5) == 0 {
			rc.InAllowed = nil
		}
	} else {
		for i := r.Intn(6); i > 0; i-- {
			var in []Label
			if r.Intn(6) > 0 {
				in = []Label{lab(true)}
			}
			nout := 1
			if r.Intn(5) == 0 {
				nout = 2
			}
			var out []Label
			for k := 0; k < nout; k++ {
				l := lab(true)
				nl := append(append([]Label{}, out...), l)
				if wellFormedList(nl) {
					out = nl
				}
			}
			s.Convs = append(s.Convs, mkConv(in, out))
		}
		if r.Intn(4) > 0 {
			rc.InAllowed = map[int]bool{}
			for tt := 0; tt < nT; tt++ {
				if r.Intn(2) == 0 {
					rc.InAllowed[tt] = true
				}
			}
		}
	}
	if r.Intn(4) == 0 {
		rc.OutAllow = map[int]bool{}
		for tt := 0; tt < nT; tt++ {
			if r.Intn(3) > 0 {
				rc.OutAllow[tt] = true
			}
		}
	}
	// the sets mirror FilterType: admitting an interface type admits its implementations
	for _, m := range []map[int]bool{rc.InAllowed, rc.OutAllow} {
		if m == nil {
			continue
		}
		for _, it := range []int{tI0, tI1, tI2} {
			if r.Intn(4) == 0 {
				m[it] = true
			}
			if m[it] {
				for cc := 0; cc < nTypes; cc++ {
					if implements(cc, it) {
						m[cc] = true
					}
				}
			}
		}
	}
	rc.FilterK = r.Intn(4)
	r.Shuffle(len(s.Convs), func(i, j int) { s.Convs[i], s.Convs[j] = s.Convs[j], s.Convs[i] })
	dedupeTypes(s)
	return rc
}

// filterOf expresses an allowed-type set with the library's combinators.
func filterOf(allowed map[int]bool, k int) am.FilterFunc {
	var fs []am.FilterFunc
	for t := 0; t < nTypes; t++ {
		if allowed[t] {
			fs = append(fs, am.FilterType(types[t]))
		}
	}
	raw := func(v am.Value) bool { return allowed[typeIndex(v.Type)] }
	switch k {
	case 0:
		return am.FilterOr(fs...)
	case 1:
		return raw
	case 2:
		return am.FilterAnd(am.FilterOr(fs...), raw)
	default:
		return am.FilterOr(am.FilterAnd(am.FilterOr(fs...)), func(am.Value) bool { return false })
	}
}

func (rc *redefCase) String() string {
	return fmt.Sprintf("%s | inFilter=%v outFilter=%v", rc.S.String(), allowedStr(rc.InAllowed), allowedStr(rc.OutAllow))
}

func allowedStr(m map[int]bool) string {
	if m == nil {
		return "none"
	}
	s := "{"
	for t := 0; t < nTypes; t++ {
		if m[t] {
			s += typeName(t) + " "
		}
	}
	return s + "}"
}

func (rc *redefCase) opts(in *Inst, call int, r *rand.Rand) []am.Arg {
	args := in.AllArgs(call, r)
	if rc.InAllowed != nil {
		args = append(args, am.FilterInput(filterOf(rc.InAllowed, rc.FilterK)))
	}
	if rc.OutAllow != nil {
		args = append(args, am.FilterOutput(filterOf(rc.OutAllow, (rc.FilterK+1)%4)))
	}
	return args
}

// resultIDs extracts the provenance ids of a Result's outputs (positional).
func resultIDs(res *am.Result) []int64 {
	var ids []int64
	for i := 0; i < res.Len(); i++ {
		x := res.Out(i)
		// a struct (or pointer to struct) result: the ids of its fields
		if sv := reflect.ValueOf(x); sv.IsValid() {
			for sv.Kind() == reflect.Ptr && !sv.IsNil() {
				sv = sv.Elem()
			}
			if sv.Kind() == reflect.Struct && sv.NumField() > 0 && sv.Type().Field(0).Anonymous && sv.Type().Field(0).Type == structMarkerT {
				for fi := 1; fi < sv.NumField(); fi++ {
					id, _ := idOf(sv.Field(fi))
					ids = append(ids, id)
				}
				continue
			}
		}
		id, _ := idOfIface(x)
		ids = append(ids, id)
	}
	return ids
}

func init() {
	register(&Monitor{
		ID:    "C08",
		Cases: func(t string) int { return tierN(t, 8000, 200000) },
		Rule: "G-redefine: converters with <= 1 input, no subtypes, each name bound to one type; half the cases are constructive chains of 1-5 converters (optionally with reverse converters = cycles) ending at a target parameter with an input filter admitting the far end, " +
			"half are random single-input converter sets; supplied values named and type-only; input/output filters = arbitrary type subsets expressed with FilterType/FilterOr/FilterAnd/raw predicates. " +
			"Oracle: (i) every input of the redefined function passes the filter and is not a supplied (name,type); (ii) calling it with a fresh value per declared input fails only with an error value some body returned, otherwise the original target ran exactly once and Out(i)/Err() are exactly what that execution produced, C01 monitor (with relabelling through the redefined function's own inputs) holds; " +
			"(iii) output rejected by the output filter => Redefine fails; (iv) every target parameter permitted => Redefine succeeds. non-trivial = Redefine succeeded and the redefined call executed >= 1 converter, or Redefine was (rightly) refused",
		Assumptions: []string{"supplied values are concrete; a value for an interface-typed declared input is supplied type-only (the only form the matching rules accept for interface requirements)", "target results positional or a (pointer to a) marker struct; ids compared one by one"},
		Run:         runC08,
		Floor: func(tier string, a *Agg) string {
			if a.Obs["redefined_calls_with_conversion"] < 300 {
				return "fewer than 300 redefined calls that exercised a conversion chain"
			}
			return ""
		},
	})
}

func runC08(c *CaseCtx) (res CaseResult) {
	r := caseRand(c.Seed, "C08", c.Idx)
	if c.Idx%25 == 11 {
		return runC08IfaceTwin(c, r)
	}
	if c.Idx%50 == 3 {
		return runC08SameKey(c, r)
	}
	if c.Idx%37 == 12 {
		return runC08ErrorOutput(c, r)
	}
	rc := genRedefine(r)
	s := rc.S
	res.Key = rc.String()
	// one case in four: the filters are default options of the target
	// (given to NewFunc), not options of Redefine
	filtersAsDefaults := r.Intn(4) == 0
	var tdef []am.Arg
	if filtersAsDefaults {
		if rc.InAllowed != nil {
			tdef = append(tdef, am.FilterInput(filterOf(rc.InAllowed, rc.FilterK)))
		}
		if rc.OutAllow != nil {
			tdef = append(tdef, am.FilterOutput(filterOf(rc.OutAllow, (rc.FilterK+1)%4)))
		}
		res.obs("cases_with_filters_as_default_options", 1)
	}
	in, err := Instantiate(s, r, tdef...)
	if err != nil {
		res.Skip = "instantiate"
		return res
	}
	det := func(extra map[string]interface{}) interface{} {
		m := map[string]interface{}{"case": rc.String(), "filters_as_defaults": filtersAsDefaults}
		for k, v := range extra {
			m[k] = v
		}
		return m
	}
	reps := tierReps(c.Tier, 2, 4)
	origIn, origOut := rc.InAllowed, rc.OutAllow
	resetFilters := c.Idx%7 == 3 && (origIn != nil || origOut != nil)
	if resetFilters {
		res.obs("cases_with_filters_reset_by_nil", 1)
	}
	for k := 0; k < reps; k++ {
		call := k
		if r.Intn(4) == 0 && touchInputSet(in.W, in.Target.Func, 40+k, r) {
			// an unrelated use wrote values into the target's own input value set
			res.obs("redefines_after_writing_the_input_value_set", 1)
		}
		rc.InAllowed, rc.OutAllow = origIn, origOut
		ropts := rc.opts(in, call, r)
		if filtersAsDefaults {
			ropts = in.AllArgs(call, r)
		}
		if resetFilters {
			// a nil filter given later takes the earlier one (option or
			// default) out of force: everything is permitted again
			ropts = append(ropts, am.FilterInput(nil), am.FilterOutput(nil))
			rc.InAllowed, rc.OutAllow = nil, nil
		}
		o := DoRedefine(in.W, in.Target.Func, ropts)
		res.Evals++
		// the caller reuses its option slice afterwards: the redefined
		// function must keep working with the options it was given
		for i := range ropts {
			ropts[i] = am.Named("overwritten", T5{ID: -7})
		}
		if c.Verbose {
			fmt.Printf("redefine: class=%s err=%s\n", o.Class, firstLine(errStr(o.Err)))
		}
		if o.Class == ClsPanic {
			res.violate("C06", "panic/redefine-"+crashKey(o.Panic), "Redefine panicked: "+o.Panic, det(nil))
			continue
		}
		if len(o.Events) > 0 {
			res.violate("C09", "executed-during-redefine", "bodies executed during Redefine: "+eventsStr(o.Events), det(nil))
		}
		// (iii)
		outRejected := false
		if rc.OutAllow != nil {
			for _, l := range s.Target.Out {
				if !rc.OutAllow[l.Type] {
					outRejected = true
				}
			}
		}
		if outRejected {
			res.obs("output_filter_rejections", 1)
			res.NonTrivial = true
			if o.Err == nil {
				res.violate("C08", "output-filter-ignored", "an output is rejected by the output filter but Redefine succeeded", det(nil))
			}
			continue
		}
		// (iv)
		allPermitted := true
		for _, p := range s.Target.In {
			if rc.InAllowed != nil && !rc.InAllowed[p.Type] {
				allPermitted = false
			}
		}
		if o.Err != nil {
			res.obs("redefine_refused", 1)
			if allPermitted {
				res.violate("C08", "refused-although-permitted", "every target parameter is permitted by the input filter but Redefine failed: "+firstLine(errStr(o.Err)), det(nil))
			}
			res.NonTrivial = true
			continue
		}
		rf := o.Func
		res.obs("redefine_ok", 1)
		// (i)
		decl := declaredInputs(rf)
		for _, l := range decl {
			if l.Type < 0 {
				res.violate("C08", "input-foreign-type", fmt.Sprintf("redefined input of unknown type: %v", l), det(nil))
				continue
			}
			if rc.InAllowed != nil && !rc.InAllowed[l.Type] {
				res.violate("C08", "input-violates-filter", fmt.Sprintf("redefined function demands %v which the input filter rejects", l), det(map[string]interface{}{"inputs": labelsStr(decl)}))
			}
			for _, sup := range s.Inputs {
				if sup.Name == l.Name && sup.Type == l.Type {
					res.violate("C08", "input-already-supplied", fmt.Sprintf("redefined function demands %v which the caller already supplied", l), det(map[string]interface{}{"inputs": labelsStr(decl)}))
				}
			}
		}
		res.max("max_redefined_inputs", int64(len(decl)))
		// (ii)
		if len(decl) > 0 && r.Intn(3) == 0 {
			// history on the redefined function: a call that lacks one of
			// the declared inputs fails; that failure must not linger
			inc, _, _ := redefinedArgs(in.W, rf, 700+call, r)
			if len(inc) > 1 || len(inc) == len(decl) {
				inc = inc[1:]
				oi := DoCall(in.W, rf, inc)
				res.Evals++
				if oi.Class == ClsPanic {
					res.violate("C06", "panic/redefined-call-"+crashKey(oi.Panic), "calling the redefined function without one of its inputs panicked: "+oi.Panic, det(nil))
				}
				res.obs("incomplete_redefined_calls_before_the_checked_one", 1)
			}
		}
		if r.Intn(4) == 0 {
			// ... or a call in which every error-declaring converter fails
			// INSIDE the redefined function
			inc, _, _ := redefinedArgs(in.W, rf, 800+call, r)
			in.W.FailOn = func(fi, exec int, specFail bool) bool { return true }
			DoCall(in.W, rf, inc)
			in.W.FailOn = nil
			res.Evals++
			res.obs("failing_redefined_calls_before_the_checked_one", 1)
		}
		args, lbls, ids := redefinedArgs(in.W, rf, call, r)
		n0 := in.W.NumEvents()
		o2 := DoCall(in.W, rf, args)
		res.Evals++
		d2 := det(map[string]interface{}{"inputs": labelsStr(lbls), "ids": fmt.Sprint(ids), "class": o2.Class, "err": firstLine(errStr(o2.Err)), "events": eventsStr(o2.Events)})
		if c.Verbose {
			fmt.Printf("  redefined inputs %v: class=%s err=%s events=%s\n", lbls, o2.Class, firstLine(errStr(o2.Err)), eventsStr(o2.Events))
		}
		if o2.Class == ClsPanic {
			res.violate("C06", "panic/redefined-call-"+crashKey(o2.Panic), "calling the redefined function panicked: "+o2.Panic, d2)
			continue
		}
		for _, msg := range checkBinding(in.W, o2.Events, BindingOpts{AllowedCalls: map[int]bool{call: true}, MinSeq: n0, Via: decl}) {
			res.violate("C01", "binding/"+bindingKind(msg), "redefined function: "+msg, d2)
		}
		var failed *Event
		for _, e := range o2.Events {
			if e.Err != nil {
				failed = e
				break
			}
		}
		if convEvents(o2.Events) > 0 {
			res.obs("redefined_calls_with_conversion", 1)
			res.max("max_converters_in_redefined_call", int64(convEvents(o2.Events)))
			res.NonTrivial = true
		}
		if o2.Err != nil {
			if !in.W.IsBodyError(o2.Err) {
				key := "redefined-call-fails/" + o2.Class
				res.violate("C08", key, "calling the redefined function with a value for every declared input failed: "+firstLine(errStr(o2.Err)), d2)
				continue
			}
			if failed != nil && o2.Err != failed.Err {
				res.violate("C04", "error-not-verbatim", "redefined function returned another error value than the failing body's", d2)
			}
			if failed == nil && !in.W.onceErr(o2.Err) {
				// the error value of some body although nothing failed in this
				// call (and it is not a memoized run-once failure): the
				// failure of an EARLIER call of the redefined function
				res.violate("C08", "redefined-call-fails/stale-error", "the redefined function returned the error of an earlier call although nothing failed in this one: "+firstLine(errStr(o2.Err)), d2)
			}
			continue
		}
		if failed != nil {
			res.violate("C04", "error-swallowed", "a body failed inside the redefined call but no error was returned", d2)
			continue
		}
		var tev *Event
		nt := 0
		for _, e := range o2.Events {
			if e.Func == -1 {
				tev = e
				nt++
			}
		}
		if s.Target.Once && nt == 0 && in.W.Execs(-1) >= 1 {
			// a run-once target that has already executed: its results are
			// the memoized ones
			res.obs("redefined_calls_of_a_memoized_run_once_target", 1)
			continue
		}
		if nt != 1 {
			res.violate("C08", "target-count", fmt.Sprintf("the original target ran %d times inside the redefined call", nt), d2)
			continue
		}
		got := resultIDs(&o2.Res)
		if !reflect.DeepEqual(got, tev.Outs) && !(len(got) == 0 && len(tev.Outs) == 0) {
			res.violate("C08", "results-differ", fmt.Sprintf("redefined function returned ids %v, the original target produced %v", got, tev.Outs), d2)
		}
		res.obs("redefined_calls_ok", 1)
		// overlapping calls of the one redefined function, each with its own
		// values: every call must yield the original function's results for
		// ITS values (built functions share their value sets by design and
		// are excluded; run-once outputs are shared by design)
		anyBuiltOrOnce := s.Target.InForm == FormBuilt || s.Target.Once
		for _, cv := range s.Convs {
			if cv.InForm == FormBuilt || cv.Once {
				anyBuiltOrOnce = true
			}
		}
		if !anyBuiltOrOnce && len(decl) > 0 && len(s.Target.Out) > 0 && !s.Target.Fail && c.Idx%4 == 0 {
			const G, N = 6, 12
			var wg sync.WaitGroup
			var mu sync.Mutex
			seeds := make([]uint64, G)
			for g := range seeds {
				seeds[g] = r.Uint64()
			}
			go1 := make(chan struct{})
			for g := 0; g < G; g++ {
				wg.Add(1)
				go func(g int) {
					defer wg.Done()
					lr := rand.New(&splitmix{s: seeds[g]})
					<-go1
					for k2 := 0; k2 < N; k2++ {
						own := 100000 + 1000*g + k2
						a2, _, _ := redefinedArgs(in.W, rf, own, lr)
						oc := DoCall(nil, rf, a2)
						mu.Lock()
						res.Evals++
						res.obs("overlapping_redefined_calls", 1)
						if oc.Class == ClsPanic {
							res.violate("C06", "panic/redefined-call-"+crashKey(oc.Panic), "overlapping redefined call panicked: "+oc.Panic, det(nil))
						} else if oc.Err == nil && oc.Res.Len() > 0 {
							if id, _ := idOfIface(oc.Res.Out(0)); id > 0 {
								owners := map[int]bool{}
								roots(in.W, id, map[int64]bool{}, owners)
								for ocall := range owners {
									if ocall != own && ocall != call && ocall != -1 {
										res.violate("C08", "results-of-another-call", fmt.Sprintf("the redefined function, called with the values of call %d, returned a result computed from the values of call %d", own, ocall), det(map[string]interface{}{"inputs": labelsStr(decl)}))
									}
								}
							}
						}
						mu.Unlock()
					}
				}(g)
			}
			close(go1)
			wg.Wait()
		}
	}
	res.max("max_chain", int64(rc.Chain))
	res.Sample = map[string]interface{}{"case": rc.String()}
	return res
}

// ---------------------------------------------------------------------------
// C09 — Redefine is pure planning (histories with a twin world)
// ---------------------------------------------------------------------------

func init() {
	register(&Monitor{
		ID:    "C09",
		Race:  true,
		Cases: func(t string) int { return tierN(t, 2500, 40000) },
		Rule: "histories of 6-14 operations (Call, Redefine(random filter), call of a redefined function, Convert) over one shared world with shared converter objects incl. run-once ones, drawn from the outcome-stable classes (exact-match scenarios with distractor converters; C05-scope constructive sets); " +
			"a twin world performs the same history with the Redefines removed. Oracle: zero body executions between entry and return of every Redefine; every real call satisfies the C01 monitor (a leaked zero-producing stand-in would surface as id 0); " +
			"each Call/Convert has the same outcome class as in the twin; run-once converters execute exactly as often as in the twin and at most once. One case in eight is a concurrent round (Redefine in some goroutines, Call in others) under the race detector. " +
			"non-trivial = the history contains a Redefine that succeeded followed by a real call",
		Assumptions: []string{"outcome comparison with the twin is only made for scenarios whose outcome class is a singleton (stable classes)", "the -race binary runs all of this check, so sequential histories are race-checked too"},
		Run:         runC09,
		Post:        racePost("C09"),
		CrashProps:  []string{"C06"},
		CaseTimeout: 0,
	})
}

// failingOnceScenario: a single-input chain in which one run-once converter
// fails. Calls end with that converter's error; a Redefine afterwards must
// still not execute anything.
func failingOnceScenario(r *rand.Rand) Scenario {
	for {
		s, _ := Constructive(r, ChainCfg{MaxTgt: 1, MaxDepth: 2 + r.Intn(3), Distract: 0, BuiltP: 0, ErrP: 0.3})
		var idx []int
		for i := range s.Convs {
			if s.Convs[i].InForm != FormBuilt {
				idx = append(idx, i)
			}
		}
		if len(idx) == 0 {
			continue
		}
		i := pick(r, idx)
		s.Convs[i].Once, s.Convs[i].HasErr, s.Convs[i].Fail, s.Convs[i].Deliver = true, true, true, DelFunc
		return s
	}
}

func stableScenario(r *rand.Rand) (Scenario, string) {
	switch r.Intn(3) {
	case 0:
		s, _ := genExact(r, true)
		for i := range s.Convs {
			s.Convs[i].Fail = false
		}
		return s, "exact"
	case 1:
		s := Layered(r, r.Intn(2) == 0, 0)
		for i := range s.Convs {
			if r.Intn(3) == 0 && s.Convs[i].InForm != FormBuilt {
				s.Convs[i].Once = true
			}
		}
		return s, "layered"
	default:
		s, _ := Constructive(r, ChainCfg{MaxTgt: 2, MaxDepth: 4, Cycles: r.Intn(2) == 0, Distract: 1, OnceP: 0.3, BuiltP: 0.1, ErrP: 0.3})
		return s, "chain"
	}
}

func runC09(c *CaseCtx) (res CaseResult) {
	r := caseRand(c.Seed, "C09", c.Idx)
	if c.Idx%8 == 7 {
		return runC09Concurrent(c, r)
	}
	if c.Idx%40 == 9 {
		return runC09SameNamedTypes(c, r)
	}
	if c.Idx%40 == 19 {
		return runC09ZeroResults(c, r)
	}

	s, fam := stableScenario(r)
	if c.Idx%8 == 3 {
		s, fam = failingOnceScenario(r), "failing-once"
	}
	res.Key = s.Key()
	cf := factsOf(&s)
	if inScopeC05(&s, &cf) == "" && fam != "exact" {
		res.Skip = "not-stable"
		return res
	}
	seed := r.Int63()
	in1, err := Instantiate(s, rand.New(&splitmix{s: uint64(seed)}))
	if err != nil {
		res.Skip = "instantiate"
		return res
	}
	in2, _ := Instantiate(s, rand.New(&splitmix{s: uint64(seed)}))
	nops := 6 + r.Intn(9)
	var classes1, classes2 []string
	var redefined []*am.Func
	succeededRedefine := false
	det := func(op string, extra string) interface{} {
		return map[string]interface{}{"scenario": s.String(), "op": op, "info": extra}
	}
	for k := 0; k < nops; k++ {
		op := r.Intn(4)
		switch {
		case op == 0 || (op == 2 && len(redefined) == 0): // Call in both worlds
			sh := r.Int63()
			a1 := in1.AllArgs(k, rand.New(&splitmix{s: uint64(sh)}))
			a2 := in2.AllArgs(k, rand.New(&splitmix{s: uint64(sh)}))
			n1 := in1.W.NumEvents()
			cfNow := factsNow(in1)
			o1 := DoCall(in1.W, in1.Target.Func, a1)
			o2 := DoCall(in2.W, in2.Target.Func, a2)
			res.Evals += 2
			checkCall(in1, &o1, &cfNow, k, n1, &res)
			classes1 = append(classes1, "call:"+o1.Class)
			classes2 = append(classes2, "call:"+o2.Class)
			if succeededRedefine {
				res.NonTrivial = true
			}
			res.obs("calls_after_planning", int64(boolInt(succeededRedefine)))
		case op == 1: // Redefine in world 1 only
			var ropts []am.Arg
			ropts = append(ropts, in1.AllArgs(k, r)...)
			switch r.Intn(3) {
			case 0:
				f, _ := randomFilter(r)
				ropts = append(ropts, am.FilterInput(f))
			case 1:
				ropts = append(ropts, am.FilterInput(inputTypesFilter(&s)))
			}
			if (c.Idx/8)%3 == 1 {
				// an output filter as well (a random type subset): whether or
				// not the target's outputs pass it, and whether or not some
				// converter could map them to a type that does, planning
				// runs nothing
				fo, _ := randomFilter(r)
				ropts = append(ropts, am.FilterOutput(fo))
				res.obs("redefines_with_an_output_filter", 1)
			}
			o := DoRedefine(in1.W, in1.Target.Func, ropts)
			res.Evals++
			res.obs("redefines", 1)
			if o.Class == ClsPanic {
				res.violate("C06", "panic/redefine-"+crashKey(o.Panic), "Redefine panicked: "+o.Panic, det("redefine", ""))
			}
			if len(o.Events) > 0 || in1.W.PlanEvents() > 0 {
				res.violate("C09", "executed-during-redefine", "bodies executed during Redefine: "+eventsStr(o.Events), det("redefine", ""))
			}
			if o.Func != nil && o.Err == nil {
				redefined = append(redefined, o.Func)
				succeededRedefine = true
			}
		case op == 2: // call a redefined function (world 1 only)
			rf := pick(r, redefined)
			args, _, _ := redefinedArgs(in1.W, rf, k, r)
			n1 := in1.W.NumEvents()
			o := DoCall(in1.W, rf, args)
			res.Evals++
			res.obs("redefined_calls", 1)
			if o.Class == ClsPanic {
				res.violate("C06", "panic/redefined-call-"+crashKey(o.Panic), "redefined call panicked: "+o.Panic, det("call-redefined", ""))
			}
			for _, msg := range checkBinding(in1.W, o.Events, BindingOpts{MinSeq: n1, Via: declaredInputs(rf)}) {
				res.violate("C01", "binding/"+bindingKind(msg), "redefined function: "+msg, det("call-redefined", eventsStr(o.Events)))
			}
			// the twin has to perform the executions of run-once functions this
			// call performed, otherwise exec counts legitimately diverge: the
			// comparison of run-once counts below is therefore only "<= 1".
		default: // Convert in both worlds
			tt := s.Target.In[r.Intn(len(s.Target.In))].Type
			sh := r.Int63()
			a1 := in1.AllArgs(k, rand.New(&splitmix{s: uint64(sh)}))
			a2 := in2.AllArgs(k, rand.New(&splitmix{s: uint64(sh)}))
			n1 := in1.W.NumEvents()
			o1 := DoConvert(in1.W, types[tt], a1)
			o2 := DoConvert(in2.W, types[tt], a2)
			res.Evals += 2
			for _, msg := range checkBinding(in1.W, o1.Events, BindingOpts{AllowedCalls: map[int]bool{k: true}, MinSeq: n1}) {
				res.violate("C01", "binding/"+bindingKind(msg), "Convert: "+msg, det("convert", eventsStr(o1.Events)))
			}
			// Convert to a parameter's bare type is only outcome-stable when that
			// type-only requirement is itself derivable in scope; compare classes
			// only when both worlds agree on being ok/failed is not guaranteed, so
			// record but do not compare.
			_ = o2
		}
	}
	// outcome classes of Calls must match the twin — only where the class is a
	// singleton: with a failing converter in the set, whether a call fails
	// depends on which of several derivations the resolver picks (map order)
	anyFail := false
	for _, cv := range s.Convs {
		if cv.Fail {
			anyFail = true
		}
	}
	if len(classes1) == len(classes2) && !anyFail {
		for i := range classes1 {
			if classes1[i] != classes2[i] {
				res.violate("C09", "outcome-differs-from-twin", fmt.Sprintf("operation %d: %s with Redefines interleaved, %s without", i, classes1[i], classes2[i]), det("history", fmt.Sprint(classes1, classes2)))
				break
			}
		}
	}
	for i, cv := range in1.Convs {
		if cv.Spec.Once {
			e1 := in1.W.Execs(i)
			res.obs("run_once_functions", 1)
			if e1 > 1 {
				res.violate("C11", "once-reexecuted", fmt.Sprintf("run-once converter c%d executed %d times over the history", i, e1), det("history", ""))
			}
			// (Whether a given run-once converter is used at all may differ
			// between the two worlds: with several equal-cost derivations the
			// choice follows map order. A memo poisoned by planning would
			// surface as a fabricated id in the C01 monitor instead.)
		}
	}
	res.obs("family."+fam, 1)
	res.Sample = map[string]interface{}{"scenario": s.String(), "history_classes": classes1}
	return res
}

// runC09Concurrent: Redefine in some goroutines, Call in others, on shared
// objects, under the race detector.
func runC09Concurrent(c *CaseCtx, r *rand.Rand) (res CaseResult) {
	s, fam := stableScenario(r)
	for i := range s.Convs {
		// built functions share their value sets with the callback by design
		if s.Convs[i].InForm == FormBuilt {
			s.Convs[i].InForm, s.Convs[i].OutForm = FormStruct, FormStruct
		}
	}
	if s.Target.InForm == FormBuilt {
		s.Target.InForm, s.Target.OutForm = FormStruct, FormStruct
	}
	res.Key = "conc " + s.Key()
	cf := factsOf(&s)
	if inScopeC05(&s, &cf) == "" && fam != "exact" {
		res.Skip = "not-stable"
		return res
	}
	in, err := Instantiate(s, r)
	if err != nil {
		res.Skip = "instantiate"
		return res
	}
	procs := []int{2, 4, 16}[r.Intn(3)]
	old := runtime.GOMAXPROCS(procs)
	defer runtime.GOMAXPROCS(old)
	G := 4 + r.Intn(5)
	rounds := 6
	var wg sync.WaitGroup
	var mu sync.Mutex
	seeds := make([]int64, G)
	for g := range seeds {
		seeds[g] = r.Int63()
	}
	casePointHook = perturb(r.Uint64(), 1)
	defer func() { casePointHook = nil }()
	// phase 1: every goroutine plans at the same time on the shared objects;
	// nothing at all may execute
	{
		var wg1 sync.WaitGroup
		go1 := make(chan struct{})
		for g := 0; g < G; g++ {
			wg1.Add(1)
			go func(g int) {
				defer wg1.Done()
				<-go1
				for k := 0; k < 3; k++ {
					call := 500000 + 100*g + k
					args := make([]am.Arg, 0, len(s.Inputs)+len(in.ConvArgs))
					for i, l := range s.Inputs {
						args = append(args, InputArg(l, in.W.FreshInput(call, i, l)))
					}
					args = append(args, in.ConvArgs...)
					// admit only the types of the supplied values, so that the
					// plan has to go through the converters
					args = append(args, am.FilterInput(inputTypesFilter(&s)))
					o := DoRedefine(nil, in.Target.Func, args)
					mu.Lock()
					res.Evals++
					res.obs("concurrent_redefines", 1)
					if o.Class == ClsPanic {
						res.violate("C06", "panic/redefine-"+crashKey(o.Panic), "concurrent Redefine panicked: "+o.Panic, map[string]interface{}{"scenario": s.String()})
					}
					mu.Unlock()
				}
			}(g)
		}
		close(go1)
		wg1.Wait()
		if n := in.W.NumEvents(); n > 0 {
			res.violate("C09", "executed-during-redefine", fmt.Sprintf("%d generated bodies executed while only Redefine calls were running (concurrently): %s", n, eventsStr(in.W.EventsFrom(0))), map[string]interface{}{"scenario": s.String(), "goroutines": G})
		}
		res.obs("all_redefine_phases", 1)
	}
	// sequential reference class
	ref := DoCall(in.W, in.Target.Func, in.AllArgs(999999, r))
	start := make(chan struct{})
	for g := 0; g < G; g++ {
		wg.Add(1)
		go func(g int) {
			defer wg.Done()
			lr := rand.New(&splitmix{s: uint64(seeds[g])})
			<-start
			for k := 0; k < rounds; k++ {
				call := 1000*(g+1) + k
				// inputs owned by this call
				args := make([]am.Arg, 0, len(s.Inputs)+len(in.ConvArgs))
				for i, l := range s.Inputs {
					args = append(args, InputArg(l, in.W.FreshInput(call, i, l)))
				}
				args = append(args, in.ConvArgs...)
				if (g+k)%2 == 0 {
					o := DoRedefine(nil, in.Target.Func, args)
					mu.Lock()
					res.Evals++
					res.obs("concurrent_redefines", 1)
					if o.Class == ClsPanic {
						res.violate("C06", "panic/redefine-"+crashKey(o.Panic), "concurrent Redefine panicked: "+o.Panic, map[string]interface{}{"scenario": s.String()})
					}
					mu.Unlock()
				} else {
					o := DoCall(nil, in.Target.Func, args)
					mu.Lock()
					res.Evals++
					res.obs("concurrent_calls", 1)
					if o.Class == ClsPanic {
						res.violate("C06", "panic/call-"+crashKey(o.Panic), "concurrent Call panicked: "+o.Panic, map[string]interface{}{"scenario": s.String()})
					} else if cls := classify(in.W, o.Err); cls != ref.Class {
						res.violate("C09", "concurrent-outcome-differs", fmt.Sprintf("Call concurrent with Redefine ended %s, sequential reference %s", cls, ref.Class), map[string]interface{}{"scenario": s.String(), "err": firstLine(errStr(o.Err))})
					}
					mu.Unlock()
				}
				_ = lr
			}
		}(g)
	}
	close(start)
	wg.Wait()
	// every argument any body saw must be real (a leaked zero stand-in shows as id 0)
	evs := in.W.EventsFrom(0)
	for _, msg := range checkBinding(in.W, evs, BindingOpts{}) {
		if bindingKind(msg) == "causality" {
			continue
		}
		res.violate("C01", "binding/"+bindingKind(msg), "concurrent Redefine/Call: "+msg, map[string]interface{}{"scenario": s.String()})
	}
	for i, cv := range in.Convs {
		if cv.Spec.Once && in.W.Execs(i) > 1 {
			res.violate("C11", "once-reexecuted", fmt.Sprintf("run-once converter c%d executed %d times", i, in.W.Execs(i)), map[string]interface{}{"scenario": s.String()})
		}
	}
	res.NonTrivial = true
	res.obs("concurrent_rounds", 1)
	res.Sample = map[string]interface{}{"scenario": s.String(), "goroutines": G, "gomaxprocs": procs}
	return res
}

// inputTypesFilter admits exactly the types of the scenario's supplied
// values: a plan under this filter has to chain the converters.
func inputTypesFilter(s *Scenario) am.FilterFunc {
	ok := map[int]bool{}
	for _, l := range s.Inputs {
		ok[l.Type] = true
	}
	return func(v am.Value) bool { return ok[typeIndex(v.Type)] }
}

// inputTypesFilterIfaces admits the types of the supplied values and the
// interface types of the universe that one of them implements.
func inputTypesFilterIfaces(s *Scenario) am.FilterFunc {
	ok := map[int]bool{}
	for _, l := range s.Inputs {
		ok[l.Type] = true
		for _, it := range []int{tI0, tI1, tI2} {
			if l.Type < nConcrete && implements(l.Type, it) {
				ok[it] = true
			}
		}
	}
	return func(v am.Value) bool { return ok[typeIndex(v.Type)] }
}
