package main

import (
	"fmt"
	"math/rand"
	"reflect"
	"strings"

	am "github.com/hashicorp/go-argmapper"
)

// ---------------------------------------------------------------------------
// C15 — value sets and built functions
// ---------------------------------------------------------------------------

// genValueList: distinct values (no repeated name; type-only values distinct
// in (type, subtype)); mixed-case names; interface types.
func genValueList(r *rand.Rand, n int, ifaces bool, uniqueTypedType bool) []Label {
	return genValueListOver(r, n, ifaces, uniqueTypedType, []int{0, 1, 2, 3, 4, 5}, false)
}

// genValueListOver draws types from pool; allDistinctTypes forbids any two
// values of one type.
func genValueListOver(r *rand.Rand, n int, ifaces bool, uniqueTypedType bool, pool []int, allDistinctTypes bool) []Label {
	names := []string{"a", "b", "c", "dd", "e"}
	if r.Intn(6) == 0 {
		// names that are not Go identifiers (legal in a struct tag)
		names = []string{"a-b", "-", "_x", "d/d", "é1"}
	}
	var out []Label
	usedN := map[string]bool{}
	usedTS := map[string]bool{}
	usedT := map[int]bool{}
	anyT := map[int]bool{}
	for tries := 0; len(out) < n && tries < 60; tries++ {
		l := Label{Type: pick(r, pool)}
		if ifaces && r.Intn(6) == 0 {
			l.Type = randIface(r)
		}
		if allDistinctTypes && anyT[l.Type] {
			continue
		}
		if r.Intn(2) == 0 {
			l.Name = pick(r, names)
		}
		if r.Intn(3) == 0 {
			l.Sub = pick(r, []string{"x", "y"})
			if r.Intn(5) == 0 {
				// free-form subtypes (media types, versions, key=value): anything
				// without a comma or a quote is legal in a tag option
				l.Sub = pick(r, []string{"application/vnd.api+json", "a+b", "v1.2", "k=v", "two words", "50%2C%", "ü/ö", "a:b;c"})
			}
		}
		if l.Name != "" {
			if usedN[l.Name] {
				continue
			}
			usedN[l.Name] = true
		} else {
			k := fmt.Sprintf("%d/%s", l.Type, l.Sub)
			if usedTS[k] || (uniqueTypedType && usedT[l.Type]) {
				continue
			}
			usedTS[k] = true
			usedT[l.Type] = true
		}
		anyT[l.Type] = true
		out = append(out, l)
	}
	return out
}

func init() {
	register(&Monitor{
		ID:    "C15",
		Cases: func(t string) int { return tierN(t, 8000, 150000) },
		Rule: "G-valueset: lists of 0-6 distinct values (named with random casing / type-only, with and without subtypes, interface types); part A (every case): NewValueSet(vs).Values() equals the list in order with lower-cased names; " +
			"Named finds each named value, Typed each type-only value whose type is unique among the type-only ones, TypedSubtype each value whose (type,subtype) is unique in the set; fresh ids -> SignatureValues() -> FromSignature on a second set restores every id. " +
			"part B (built functions, lists with one type-only value per type): a function built from an input and an output set is called 1-6 times with fresh ids directly, as a converter in front of a consuming target, and next to a twin ordinary function of the same signature; " +
			"oracle: in unambiguous cases (no interface parameter, no type-only value sharing its type with another value) parameter i of the callback observes exactly the id supplied for key i, otherwise the C01 relation; " +
			"Result/FromResult/downstream consumers observe exactly the ids (or the error value) the callback set; no id of an earlier call appears in a later one; the twin has the same outcome class. non-trivial = >= 2 values in a list",
		Assumptions: []string{"callbacks read their inputs positionally from Values() and set outputs through Named/Typed (TypedSubtype also matches named values by design)"},
		Run:         runC15,
	})
}

func runC15(c *CaseCtx) (res CaseResult) {
	r := caseRand(c.Seed, "C15", c.Idx)
	if c.Idx%40 == 7 {
		return runC15TypedNil(c, r)
	}
	if c.Idx%40 == 23 {
		return runC15ArgSnapshot(c, r)
	}
	if c.Idx%80 == 31 {
		return runC15SamePrinting(c, r)
	}
	if c.Idx%27 == 11 {
		return runC15Partial(c, r)
	}
	if c.Idx%27 == 20 {
		return runC15FromFuncSets(c, r)
	}
	det := map[string]interface{}{}
	defer func() {
		if p := recover(); p != nil {
			res.violate("C06", "panic/valueset-"+crashKey(fmt.Sprint(p)), fmt.Sprintf("panicked: %v", p), det)
		}
	}()
	// ---- part A
	ls := genValueList(r, r.Intn(7), true, false)
	det["values"] = labelsStr(ls)
	res.Key = labelsStr(ls)
	res.NonTrivial = len(ls) >= 2
	mkSet := func() (*am.ValueSet, error) { return am.NewValueSet(labelsToValues(ls, r, true)) }
	vs, err := mkSet()
	res.Evals++
	if err != nil {
		res.violate("C15", "newvalueset-rejected", "NewValueSet rejected a list of distinct values: "+err.Error(), det)
		return res
	}
	got := vs.Values()
	if len(got) != len(ls) {
		res.violate("C15", "values-length", fmt.Sprintf("Values() has %d entries for %d values", len(got), len(ls)), det)
		return res
	}
	typedCount := map[int]int{}
	tsCount := map[string]int{}
	for _, l := range ls {
		if l.Name == "" {
			typedCount[l.Type]++
		}
		tsCount[fmt.Sprintf("%d/%s", l.Type, l.Sub)]++
	}
	for i, l := range ls {
		v := got[i]
		if v.Name != l.Name || v.Type != types[l.Type] || v.Subtype != l.Sub {
			res.violate("C15", "values-differ", fmt.Sprintf("Values()[%d] = (%q,%v,%q), want %v", i, v.Name, v.Type, v.Subtype, l), det)
		}
		if l.Name != "" {
			if p := vs.Named(l.Name); p == nil || p.Type != types[l.Type] || p.Subtype != l.Sub {
				res.violate("C15", "named-lookup", fmt.Sprintf("Named(%q) does not find %v", l.Name, l), det)
			} else if up := strings.ToUpper(l.Name); vs.Named(up) != p {
				// names are case insensitive: whatever the spelling, the
				// lookup yields the one value of that name
				res.violate("C15", "named-lookup-casing", fmt.Sprintf("Named(%q) finds the value, Named(%q) does not", l.Name, up), det)
			}
		} else if typedCount[l.Type] == 1 {
			if p := vs.Typed(types[l.Type]); p == nil || p.Name != "" || p.Subtype != l.Sub {
				res.violate("C15", "typed-lookup", fmt.Sprintf("Typed(%s) does not find %v", typeName(l.Type), l), det)
			}
		}
		if tsCount[fmt.Sprintf("%d/%s", l.Type, l.Sub)] == 1 {
			if p := vs.TypedSubtype(types[l.Type], l.Sub); p == nil || p.Name != l.Name || p.Type != types[l.Type] || p.Subtype != l.Sub {
				res.violate("C15", "typedsubtype-lookup", fmt.Sprintf("TypedSubtype(%s,%q) does not find %v", typeName(l.Type), l.Sub, l), det)
			}
		}
		res.obs("values_checked", 1)
	}
	// signature round trip (pointers are obtained positionally through the
	// accessors where unambiguous, otherwise by scanning Values() order)
	ids := make([]int64, len(ls))
	setAll := func(s *am.ValueSet, base int64) bool {
		for i, l := range ls {
			ids[i] = base + int64(i) + 1
			val := mkAs(l.Type, concreteFor(l.Type, r), ids[i])
			var p *am.Value
			switch {
			case l.Name != "":
				p = s.Named(l.Name)
			case typedCount[l.Type] == 1:
				p = s.Typed(types[l.Type])
			case tsCount[fmt.Sprintf("%d/%s", l.Type, l.Sub)] == 1:
				p = s.TypedSubtype(types[l.Type], l.Sub)
			}
			if p == nil {
				return false
			}
			p.Value = val
		}
		return true
	}
	if setAll(vs, 1000) {
		sig := vs.SignatureValues()
		sigT := vs.Signature()
		if len(sig) != len(sigT) {
			res.violate("C15", "signature-length", fmt.Sprintf("SignatureValues has %d entries, Signature %d", len(sig), len(sigT)), det)
		} else {
			for i := range sig {
				if sig[i].Type() != sigT[i] {
					res.violate("C15", "signature-type", "SignatureValues()[i] is not of type Signature()[i]", det)
				}
			}
			vs2, _ := mkSet()
			if err := vs2.FromSignature(sig); err != nil {
				res.violate("C15", "fromsignature-error", err.Error(), det)
			}
			for i, v := range vs2.Values() {
				id, _ := idOf(v.Value)
				if id != ids[i] {
					res.violate("C15", "roundtrip-lost-value", fmt.Sprintf("value %d (%v) carries #%d after the signature round trip, want #%d", i, ls[i], id, ids[i]), det)
				}
				res.obs("roundtrip_values", 1)
			}
			// what was loaded stays loaded: the source set is given new
			// values and rendered again; the second set still holds the
			// values of the FIRST render, a third one gets the new ones
			first := append([]int64{}, ids...)
			if setAll(vs, 3000) {
				sigB := vs.SignatureValues()
				for i, v := range vs2.Values() {
					if id, _ := idOf(v.Value); id != first[i] {
						res.violate("C15", "roundtrip-lost-value", fmt.Sprintf("value %d (%v) of a set loaded from the first rendering changed from #%d to #%d when the source set was rendered again with new values", i, ls[i], first[i], id), det)
					}
				}
				vs4, _ := mkSet()
				if err := vs4.FromSignature(sigB); err == nil {
					for i, v := range vs4.Values() {
						if id, _ := idOf(v.Value); id != ids[i] {
							res.violate("C15", "roundtrip-lost-value", fmt.Sprintf("value %d (%v) carries #%d after the second rendering, want #%d", i, ls[i], id, ids[i]), det)
						}
					}
				}
				res.obs("second_renderings_checked", 1)
			}
		}
		// a second set of the same shape holds its own values: writing to it
		// must not change what the first set renders
		vs3, _ := mkSet()
		want := append([]int64{}, ids...)
		if setAll(vs3, 5000) {
			for i, v := range vs.Values() {
				if id, _ := idOf(v.Value); id != want[i] {
					res.violate("C15", "sets-share-values", fmt.Sprintf("value %d (%v) of one set changed from #%d to #%d when another set of the same shape was written", i, ls[i], want[i], id), det)
				}
			}
			for i, sv := range vs.SignatureValues() {
				_ = i
				_ = sv
			}
			res.obs("independent_sets_checked", 1)
		}
	} else {
		res.obs("roundtrip_skipped_ambiguous", 1)
	}

	// ---- part B: built function
	// inputs over T0..T2 (+ interfaces, all implemented by those), outputs over
	// T3..T5 with pairwise distinct types: what a consumer of the outputs
	// observes can then only come from the built function, unambiguously
	in := genValueListOver(r, r.Intn(4), r.Intn(3) == 0, true, []int{0, 1, 2}, false)
	out := genValueListOver(r, 1+r.Intn(3), false, true, []int{3, 4, 5}, true)
	// variant: a named and a type-only output of ONE type; a consumer asking
	// for that type under another name can only be served by the type-only one
	outIdx := []int{}
	sameTypePair := r.Intn(4) == 0
	var consIn []Label
	if sameTypePair {
		tt := 3 + r.Intn(3)
		out = []Label{{Name: "a", Type: tt}, {Type: tt}}
		consIn = []Label{{Name: "b", Type: tt}}
		outIdx = []int{1}
		if r.Intn(2) == 0 {
			t2 := 3 + (tt-3+1)%3
			out = append(out, Label{Type: t2})
			consIn = append(consIn, Label{Type: t2})
			outIdx = append(outIdx, 2)
		}
	} else {
		consIn = append([]Label{}, out...)
		for i := range out {
			outIdx = append(outIdx, i)
		}
	}
	spec := FuncSpec{In: in, Out: out, InForm: FormBuilt, OutForm: FormBuilt, HasErr: true, CaseMix: true}
	// the callback fails in some calls of the history and succeeds in others
	failMask := 0
	if r.Intn(3) == 0 {
		failMask = r.Intn(64)
	}
	det["built"] = spec.String()
	unamb := true
	for i, l := range in {
		if isIface(l.Type) {
			unamb = false
		}
		for j, m := range in {
			if i != j && l.Type == m.Type && (l.Name == "" || m.Name == "") {
				unamb = false
			}
		}
	}
	w := NewWorld()
	curCall := 0
	w.FailOn = func(fi, exec int, specFail bool) bool {
		return (fi == 0 || fi == 1) && failMask&(1<<uint(curCall%6)) != 0
	}
	var bopts []am.Arg
	if r.Intn(2) == 0 {
		// BuildFunc(in, out, cb, opts...): a default option of its own
		bopts = append(bopts, am.FuncName("built-under-test"))
	}
	b, err := w.Build(0, spec, r, bopts...)
	if err != nil {
		res.violate("C15", "buildfunc-rejected", "BuildFunc rejected well-formed value sets: "+err.Error(), det)
		return res
	}
	// twin: ordinary function of the same signature
	tspec := spec
	tspec.InForm, tspec.OutForm = FormStruct, FormStruct
	if len(in) == 0 {
		tspec.InForm = FormPos
	}
	tw, err := w.Build(1, tspec, r)
	if err != nil {
		res.violate("C06", "newfunc-rejected", "twin function rejected: "+err.Error(), det)
		return res
	}
	// consuming target: takes every output of the built function
	cons := FuncSpec{In: consIn, InForm: FormStruct, OutForm: FormPos}
	ct, err := w.Build(-1, cons, r)
	if err != nil {
		res.Skip = "consumer"
		return res
	}
	seenIDs := map[int64]bool{}
	ncalls := 1 + r.Intn(6)
	for k := 0; k < ncalls; k++ {
		curCall = k
		fail := failMask&(1<<uint(k%6)) != 0
		if fail {
			res.obs("calls_with_failing_callback", 1)
		}
		supply := func(call int) ([]am.Arg, []int64) {
			var args []am.Arg
			var sid []int64
			for i, l := range in {
				conc := concreteFor(l.Type, r)
				src := Label{Name: l.Name, Type: conc, Sub: l.Sub}
				if isIface(l.Type) {
					src.Name = "" // interface requirements are fed type-only
				}
				id := w.FreshInput(call, i, src)
				sid = append(sid, id)
				n := src.Name
				if n != "" {
					n = mixCase(n, r)
				}
				args = append(args, am.NamedSubtype(n, mk(conc, id).Interface(), l.Sub))
			}
			r.Shuffle(len(args), func(a, b int) { args[a], args[b] = args[b], args[a]; sid[a], sid[b] = sid[b], sid[a] })
			return args, sid
		}
		idOfKey := func(args []am.Arg, sid []int64, call int) map[int]int64 {
			// map parameter index -> supplied id, via the provenance table
			m := map[int]int64{}
			for _, id := range sid {
				if o := w.Origin(id); o != nil {
					m[o.Func] = id
				}
			}
			return m
		}
		// (0) from the second round on: a call that lacks one input whose
		// type no other input shares — the callback must not run, whatever
		// earlier calls injected
		if k > 0 && len(in) > 0 {
			drop := r.Intn(len(in))
			unique := !isIface(in[drop].Type)
			for i, l := range in {
				if i != drop && (l.Type == in[drop].Type || isIface(l.Type)) {
					unique = false
				}
			}
			if unique {
				args0, sid0 := supply(3*k + 1000)
				var part []am.Arg
				for i, a := range args0 {
					if o := w.Origin(sid0[i]); o != nil && o.Func != drop {
						part = append(part, a)
					}
				}
				o0 := DoCall(w, b.Func, part)
				res.Evals++
				if o0.Class == ClsOK || len(o0.Events) > 0 {
					res.violate("C15", "callback-ran-without-an-input", fmt.Sprintf("the built function was called without a value for %v: class %s, %d callback executions (values of earlier calls must not be reused)", in[drop], o0.Class, len(o0.Events)),
						map[string]interface{}{"built": spec.String(), "call": k, "events": eventsStr(o0.Events)})
				}
				res.obs("incomplete_calls_of_the_built_function", 1)
			}
		}
		// (1) direct call of the built function
		args, sid := supply(3 * k)
		byParam := idOfKey(args, sid, 3*k)
		n0 := w.NumEvents()
		o := DoCall(w, b.Func, args)
		res.Evals++
		d := map[string]interface{}{"built": spec.String(), "call": k, "class": o.Class, "err": firstLine(errStr(o.Err)), "events": eventsStr(o.Events)}
		if o.Class == ClsPanic {
			res.violate("C06", "panic/built-"+crashKey(o.Panic), "calling a built function panicked: "+o.Panic, d)
			return res
		}
		for _, msg := range checkBinding(w, o.Events, BindingOpts{AllowedCalls: map[int]bool{3 * k: true}, MinSeq: n0}) {
			res.violate("C01", "binding/"+bindingKind(msg), "built function: "+msg, d)
		}
		if len(o.Events) != 1 || o.Events[0].Func != 0 {
			res.violate("C15", "built-not-called-once", fmt.Sprintf("calling the built function with exact inputs logged %d callback executions (class %s)", len(o.Events), o.Class), d)
			continue
		}
		ev := o.Events[0]
		if unamb {
			for i, a := range ev.Args {
				if a.ID != byParam[i] {
					res.violate("C15", "callback-wrong-value", fmt.Sprintf("callback parameter %d (%v) observed #%d, the value supplied for its key is #%d", i, a.Param, a.ID, byParam[i]), d)
				}
				res.obs("callback_arguments_exact", 1)
			}
		}
		for _, a := range ev.Args {
			if seenIDs[a.ID] {
				res.violate("C15", "stale-value", fmt.Sprintf("callback observed #%d which belongs to an earlier call", a.ID), d)
			}
		}
		for _, id := range sid {
			seenIDs[id] = true
		}
		if fail {
			if o.Err != ev.Err {
				res.violate("C15", "callback-error-lost", "the callback's error value is not what Call returned", d)
			}
		} else {
			if o.Err != nil {
				res.violate("C15", "built-call-failed", "built function call failed: "+firstLine(errStr(o.Err)), d)
				continue
			}
			// Result: one struct output carrying the callback's ids in field order
			if o.Res.Len() != 1 {
				res.violate("C15", "built-result-len", fmt.Sprintf("Len() = %d for a built function", o.Res.Len()), d)
			} else {
				sv := reflect.ValueOf(o.Res.Out(0))
				var gotIDs []int64
				for fi := 0; fi < sv.NumField(); fi++ {
					if sv.Type().Field(fi).Anonymous {
						continue
					}
					id, _ := idOf(sv.Field(fi))
					gotIDs = append(gotIDs, id)
				}
				if !reflect.DeepEqual(gotIDs, ev.Outs) {
					res.violate("C15", "result-differs", fmt.Sprintf("Result carries %v, the callback set %v", gotIDs, ev.Outs), d)
				}
				// FromResult into a fresh output set
				os2, _ := am.NewValueSet(labelsToValues(out, r, true))
				if err := os2.FromResult(o.Res); err != nil {
					res.violate("C15", "fromresult-error", err.Error(), d)
				} else {
					for i, v := range os2.Values() {
						if id, _ := idOf(v.Value); id != ev.Outs[i] {
							res.violate("C15", "fromresult-differs", fmt.Sprintf("FromResult value %d carries #%d, the callback set #%d", i, id, ev.Outs[i]), d)
						}
					}
				}
				res.obs("results_checked", 1)
			}
		}
		// (2) as a converter feeding a consumer
		args2, _ := supply(3*k + 1)
		n1 := w.NumEvents()
		o2 := DoCall(w, ct.Func, append(args2, am.ConverterFunc(b.Func)))
		res.Evals++
		d2 := map[string]interface{}{"built": spec.String(), "consumer": cons.String(), "class": o2.Class, "err": firstLine(errStr(o2.Err)), "events": eventsStr(o2.Events)}
		if o2.Class == ClsPanic {
			res.violate("C06", "panic/built-chain-"+crashKey(o2.Panic), "built converter chain panicked: "+o2.Panic, d2)
			continue
		}
		for _, msg := range checkBinding(w, o2.Events, BindingOpts{AllowedCalls: map[int]bool{3*k + 1: true}, MinSeq: n1}) {
			res.violate("C01", "binding/"+bindingKind(msg), "built converter chain: "+msg, d2)
		}
		if fail {
			if o2.Class != ClsConvErr {
				res.violate("C04", "error-not-verbatim", "failing built converter: the call did not return its error value (class "+o2.Class+")", d2)
			}
		} else if o2.Class != ClsOK {
			res.violate("C15", "built-chain-failed", "consumer of a built converter failed: "+o2.Class+" "+firstLine(errStr(o2.Err)), d2)
		} else {
			// the consumer observed exactly the ids the callback set in this call
			// (the converter may run once per consumer parameter: every
			// execution of this call is a legitimate source)
			var cbs []*Event
			var te *Event
			for _, e := range o2.Events {
				if e.Func == 0 {
					cbs = append(cbs, e)
				}
				if e.Func == -1 {
					te = e
				}
			}
			if len(cbs) == 0 || te == nil {
				res.violate("C15", "built-chain-missing-event", "consumer ran without the built converter or vice versa", d2)
			} else {
				for i, a := range te.Args {
					ok := false
					for _, cb := range cbs {
						if a.ID == cb.Outs[outIdx[i]] {
							ok = true
						}
					}
					if !ok {
						res.violate("C15", "downstream-differs", fmt.Sprintf("consumer parameter %d (%v) observed #%d, which no callback execution of this call set for that output", i, a.Param, a.ID), d2)
					}
					res.obs("downstream_arguments_exact", 1)
				}
			}
		}
		// (3) twin: ordinary function, same arguments shape
		args3, sid3 := supply(3*k + 2)
		byParam3 := idOfKey(args3, sid3, 3*k+2)
		o3 := DoCall(w, tw.Func, args3)
		res.Evals++
		if (o3.Class == ClsOK) != (o.Class == ClsOK) || (o3.Class == ClsConvErr) != (o.Class == ClsConvErr) {
			res.violate("C15", "differs-from-ordinary-function", fmt.Sprintf("built function ended %s, an ordinary function of the same signature %s", o.Class, o3.Class), d)
		} else if unamb && len(o3.Events) == 1 {
			for i, a := range o3.Events[0].Args {
				if a.ID != byParam3[i] {
					res.violate("C03", "named-not-exact", fmt.Sprintf("twin ordinary function: parameter %d observed #%d, supplied #%d", i, a.ID, byParam3[i]), d)
				}
			}
		}
	}
	res.obs("built_function_calls", int64(ncalls))
	if unamb {
		res.obs("unambiguous_cases", 1)
	}
	res.Sample = det
	return res
}
