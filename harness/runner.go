package main

import (
	"bufio"
	"bytes"
	"encoding/json"
	"fmt"
	"os"
	"os/exec"
	"path/filepath"
	"regexp"
	"runtime"
	"runtime/debug"
	"sort"
	"strconv"
	"strings"
	"sync"
	"sync/atomic"
	"time"
)

// ---------------------------------------------------------------------------
// Monitor interface
// ---------------------------------------------------------------------------

// Violation is one refutation of a property by an observed execution.
type Violation struct {
	Prop   string      `json:"prop"`
	Key    string      `json:"key"` // finding key: call site + structural predicate of the input
	Msg    string      `json:"msg"`
	Detail interface{} `json:"detail,omitempty"`
}

// CaseResult is what a monitor reports for one case.
type CaseResult struct {
	Key          string           `json:"-"`
	KeyHash      string           `json:"k,omitempty"`
	NonTrivial   bool             `json:"nt,omitempty"`
	Skip         string           `json:"skip,omitempty"`
	Inconclusive string           `json:"inc,omitempty"`
	Violations   []Violation      `json:"v,omitempty"`
	Obs          map[string]int64 `json:"obs,omitempty"` // summed over cases
	Max          map[string]int64 `json:"max,omitempty"` // maximum over cases
	Sample       interface{}      `json:"sample,omitempty"`
	Evals        int              `json:"ev,omitempty"`
}

func (c *CaseResult) obs(name string, n int64) {
	if c.Obs == nil {
		c.Obs = map[string]int64{}
	}
	c.Obs[name] += n
}

func (c *CaseResult) max(name string, n int64) {
	if c.Max == nil {
		c.Max = map[string]int64{}
	}
	if n > c.Max[name] {
		c.Max[name] = n
	}
}

func (c *CaseResult) violate(prop, key, msg string, detail interface{}) {
	c.Violations = append(c.Violations, Violation{Prop: prop, Key: key, Msg: msg, Detail: detail})
}

// CaseCtx identifies a case.
type CaseCtx struct {
	Prop    string
	Tier    string
	Seed    int64
	Idx     int
	Verbose bool
}

// Monitor is the machinery deciding one property.
type Monitor struct {
	ID    string
	Race  bool // needs the -race binary
	Cases func(tier string) int
	Run   func(c *CaseCtx) CaseResult
	Rule  string
	// Floor returns a non-empty reason when the run observed too little to
	// count as evidence (the run is then broken/inconclusive: exit 2).
	Floor       func(tier string, a *Agg) string
	Assumptions []string
	// CrashProps lists the properties a worker crash (fatal error, os.Exit
	// from the runtime) during a case refutes. Default: C06.
	CrashProps []string
	// Workers overrides the number of worker processes (0 = NumCPU).
	Workers int
	// CaseTimeout overrides the per-case wall-clock watchdog.
	CaseTimeout time.Duration
	// Post lets a monitor add run-level observations (e.g. race logs).
	Post func(run *RunInfo, a *Agg)
}

var monitors = map[string]*Monitor{}

func register(m *Monitor) { monitors[m.ID] = m }

// Agg aggregates case results over a run.
type Agg struct {
	Cases        int
	Evals        int64
	Distinct     map[string]bool
	Skips        map[string]int
	Inconclusive map[string]int
	Obs          map[string]int64
	Max          map[string]int64
	Samples      []interface{}
	Violations   []Violation
	Crashes      int
}

func newAgg() *Agg {
	return &Agg{Distinct: map[string]bool{}, Skips: map[string]int{}, Inconclusive: map[string]int{}, Obs: map[string]int64{}, Max: map[string]int64{}}
}

func (a *Agg) add(r *CaseResult) {
	a.Cases++
	a.Evals += int64(r.Evals)
	if r.Skip != "" {
		a.Skips[r.Skip]++
	}
	if r.Inconclusive != "" {
		a.Inconclusive[r.Inconclusive]++
	}
	if r.NonTrivial && r.KeyHash != "" {
		a.Distinct[r.KeyHash] = true
	}
	for k, v := range r.Obs {
		a.Obs[k] += v
	}
	for k, v := range r.Max {
		if v > a.Max[k] {
			a.Max[k] = v
		}
	}
	if r.Sample != nil && len(a.Samples) < 5 {
		a.Samples = append(a.Samples, r.Sample)
	}
	a.Violations = append(a.Violations, r.Violations...)
}

// RunInfo describes the run to Post hooks.
type RunInfo struct {
	Prop, Tier string
	Seed       int64
	Dir        string
}

// ---------------------------------------------------------------------------
// Worker
// ---------------------------------------------------------------------------

const caseTimeoutDefault = 40 * time.Second
const deadlockProbeAfter = 10 * time.Second

var goroutineHdr = regexp.MustCompile(`(?m)^goroutine (\d+) \[([^\]]*)\]:$`)
var caseFrame = regexp.MustCompile(`main\.run[A-Z0-9]|main\.DoC|main\.check|hashicorp/go-argmapper`)

// blockedCaseGoroutines returns a description of the goroutines working on
// the current case if ALL of them are parked (mutex, semaphore, wait group,
// channel, select), and "" if any of them is running, runnable, sleeping or
// in a syscall — or if there is none.
func blockedCaseGoroutines() string {
	buf := make([]byte, 4<<20)
	buf = buf[:runtime.Stack(buf, true)]
	var out []string
	for _, blk := range strings.Split(string(buf), "\n\n") {
		m := goroutineHdr.FindStringSubmatch(blk)
		if m == nil || !caseFrame.MatchString(blk) || strings.Contains(blk, "blockedCaseGoroutines") {
			continue
		}
		st := m[2]
		parked := false
		for _, w := range []string{"Mutex.Lock", "semacquire", "WaitGroup.Wait", "chan receive", "chan send", "select", "Cond.Wait", "RWMutex"} {
			if strings.Contains(st, w) {
				parked = true
			}
		}
		if !parked {
			return ""
		}
		where := ""
		for _, ln := range strings.Split(blk, "\n") {
			if strings.Contains(ln, "hashicorp/go-argmapper") && !strings.HasPrefix(ln, "\t") {
				where = strings.TrimSpace(ln)
				if i := strings.IndexByte(where, '('); i > 0 {
					where = where[:i]
				}
				break
			}
		}
		out = append(out, "goroutine "+m[1]+" ["+st+"] in "+where)
	}
	return strings.Join(out, "\n")
}

var gidRe = regexp.MustCompile(`goroutine (\d+) `)

func sameGoroutines(a, b string) bool {
	return fmt.Sprint(gidRe.FindAllString(a, -1)) == fmt.Sprint(gidRe.FindAllString(b, -1))
}

// memLimit: a single case that drives the process above this heap size is an
// unbounded allocation (typical cases allocate a few MiB).
const memLimit = 3 << 30

func workerMain(prop, tier string, seed int64, start, step, n int, journal string) int {
	m := monitors[prop]
	if m == nil {
		fmt.Fprintln(os.Stderr, "unknown property", prop)
		return 2
	}
	debug.SetMaxStack(64 << 20)
	jf, err := os.OpenFile(journal, os.O_CREATE|os.O_WRONLY|os.O_APPEND, 0o644)
	if err != nil {
		fmt.Fprintln(os.Stderr, err)
		return 2
	}
	defer jf.Close()
	installHooks()
	timeout := m.CaseTimeout
	if timeout == 0 {
		timeout = caseTimeoutDefault
	}
	var mu sync.Mutex
	samples := 0
	var curIdx int64 = -1
	go func() {
		var ms runtime.MemStats
		for {
			time.Sleep(250 * time.Millisecond)
			runtime.ReadMemStats(&ms)
			if ms.HeapAlloc > memLimit {
				mu.Lock()
				jf.WriteString("M " + strconv.FormatInt(atomic.LoadInt64(&curIdx), 10) + "\n")
				os.Exit(4)
			}
		}
	}()
	for i := start; i < n; i += step {
		atomic.StoreInt64(&curIdx, int64(i))
		jf.WriteString("B " + strconv.Itoa(i) + "\n")
		idx := i
		timer := time.AfterFunc(timeout, func() {
			mu.Lock()
			jf.WriteString("T " + strconv.Itoa(idx) + "\n")
			os.Exit(3)
		})
		// state-based deadlock verdict: if, well past any plausible running
		// time, every goroutine working on the case is parked on a lock or
		// wait (none running, runnable or sleeping) at two inspections in a
		// row, nobody is left to release anything
		dl := time.AfterFunc(deadlockProbeAfter, func() {
			first := blockedCaseGoroutines()
			if first == "" {
				return
			}
			time.Sleep(2 * time.Second)
			if atomic.LoadInt64(&curIdx) != int64(idx) {
				return
			}
			if second := blockedCaseGoroutines(); second != "" && sameGoroutines(first, second) {
				mu.Lock()
				jf.WriteString("D " + strconv.Itoa(idx) + " " + strings.ReplaceAll(second, "\n", " | ") + "\n")
				os.Exit(5)
			}
		})
		ctx := &CaseCtx{Prop: prop, Tier: tier, Seed: seed, Idx: i}
		res := runCaseRecover(m, ctx)
		timer.Stop()
		dl.Stop()
		if res.Key != "" {
			res.KeyHash = strconv.FormatUint(hashStr(res.Key), 36)
		}
		for j := range res.Violations {
			res.Violations[j].Detail = map[string]interface{}{"case": i, "info": res.Violations[j].Detail}
		}
		if res.Sample != nil {
			if samples >= 2 && len(res.Violations) == 0 {
				res.Sample = nil
			} else {
				samples++
			}
		}
		b, _ := json.Marshal(res)
		mu.Lock()
		jf.WriteString("E " + strconv.Itoa(i) + " " + string(b) + "\n")
		mu.Unlock()
	}
	return 0
}

// runCaseRecover runs one case; a panic escaping the monitor itself (not one
// captured around a library call) is a harness bug and is reported as such.
func runCaseRecover(m *Monitor, ctx *CaseCtx) (res CaseResult) {
	defer func() {
		if p := recover(); p != nil {
			res.Inconclusive = "harness-panic"
			res.Violations = append(res.Violations, Violation{Prop: "HARNESS", Key: "harness-panic", Msg: fmt.Sprintf("monitor panicked: %v\n%s", p, debug.Stack())})
		}
		clearCaseHooks()
		caseTrace = false
		caseShareName = false
		caseOneGen = false
	}()
	// a fixed subset of the cases (19 is coprime with the worker stride) runs
	// with trace logging switched on in every world it makes
	caseTrace = ctx.Idx%19 == 6
	caseShareName = ctx.Idx%23 == 9
	caseOneGen = ctx.Idx%7 == 2
	return m.Run(ctx)
}

// ---------------------------------------------------------------------------
// Parent
// ---------------------------------------------------------------------------

type journalState struct {
	results      []*CaseResult
	lastBegin    int
	lastEnd      int
	timedOut     int
	memOut       int
	deadlock     int
	deadlockInfo string
}

func readJournal(path string, from int64) (js journalState, off int64) {
	js.lastBegin, js.lastEnd, js.timedOut, js.memOut, js.deadlock = -1, -1, -1, -1, -1
	f, err := os.Open(path)
	if err != nil {
		return js, from
	}
	defer f.Close()
	f.Seek(from, 0)
	rd := bufio.NewReaderSize(f, 1<<20)
	off = from
	for {
		line, err := rd.ReadString('\n')
		if err != nil {
			break // partial trailing line is ignored
		}
		off += int64(len(line))
		line = strings.TrimRight(line, "\n")
		switch {
		case strings.HasPrefix(line, "B "):
			js.lastBegin, _ = strconv.Atoi(line[2:])
		case strings.HasPrefix(line, "T "):
			js.timedOut, _ = strconv.Atoi(line[2:])
		case strings.HasPrefix(line, "M "):
			js.memOut, _ = strconv.Atoi(line[2:])
		case strings.HasPrefix(line, "D "):
			f := strings.SplitN(line[2:], " ", 2)
			js.deadlock, _ = strconv.Atoi(f[0])
			if len(f) > 1 {
				js.deadlockInfo = f[1]
			}
		case strings.HasPrefix(line, "E "):
			rest := line[2:]
			sp := strings.IndexByte(rest, ' ')
			if sp < 0 {
				continue
			}
			idx, _ := strconv.Atoi(rest[:sp])
			var r CaseResult
			if json.Unmarshal([]byte(rest[sp+1:]), &r) == nil {
				js.results = append(js.results, &r)
				js.lastEnd = idx
			}
		}
	}
	return js, off
}

var fatalRe = regexp.MustCompile(`(?m)^(fatal error: .*|panic: .*|runtime: goroutine stack exceeds.*|SIGSEGV.*|unexpected fault address.*)$`)

func firstFatal(errFile string) string {
	b, err := os.ReadFile(errFile)
	if err != nil {
		return "(no stderr)"
	}
	if len(b) > 1<<20 {
		b = b[:1<<20]
	}
	if m := fatalRe.FindAll(b, 3); len(m) > 0 {
		var s []string
		for _, x := range m {
			s = append(s, string(x))
		}
		return strings.Join(s, " | ")
	}
	s := strings.TrimSpace(string(b))
	if len(s) > 300 {
		s = s[:300]
	}
	return s
}

func verifDir() string {
	if d := os.Getenv("VERIF_DIR"); d != "" {
		return d
	}
	return "/verif"
}

func parentMain(prop, tier string) int {
	m := monitors[prop]
	if m == nil {
		fmt.Fprintln(os.Stderr, "unknown property", prop)
		return 2
	}
	seed := envInt("VERIF_SEED", 1)
	t0 := time.Now()
	n := m.Cases(tier)
	if v := envInt("VERIF_CASES", 0); v > 0 {
		n = int(v)
	}
	workers := runtime.NumCPU()
	if workers > 16 {
		workers = 16
	}
	if m.Workers > 0 {
		workers = m.Workers
	}
	if workers > n {
		workers = n
	}
	if workers < 1 {
		workers = 1
	}
	dir := filepath.Join(verifDir(), ".run", fmt.Sprintf("%s-%s-%d", prop, tier, os.Getpid()))
	os.RemoveAll(dir)
	if err := os.MkdirAll(dir, 0o755); err != nil {
		fmt.Fprintln(os.Stderr, err)
		return 2
	}
	self, _ := os.Executable()

	agg := newAgg()
	var aggMu sync.Mutex
	var wg sync.WaitGroup
	broken := ""
	for w := 0; w < workers; w++ {
		wg.Add(1)
		go func(w int) {
			defer wg.Done()
			journal := filepath.Join(dir, fmt.Sprintf("w%d.journal", w))
			start := w
			var off int64
			restarts := 0
			watchdogs := 0
			for start < n {
				errFile := filepath.Join(dir, fmt.Sprintf("w%d.%d.err", w, restarts))
				ef, _ := os.Create(errFile)
				cmd := exec.Command(self, "-worker", "-prop", prop, "-tier", tier,
					"-seed", strconv.FormatInt(seed, 10), "-start", strconv.Itoa(start),
					"-step", strconv.Itoa(workers), "-n", strconv.Itoa(n), "-journal", journal)
				cmd.Stdout = ef
				cmd.Stderr = ef
				cmd.Env = append(os.Environ(), "VERIF_WORKER=1")
				if m.Race {
					cmd.Env = append(cmd.Env, "GORACE=halt_on_error=0 exitcode=0 log_path="+filepath.Join(dir, fmt.Sprintf("race.w%d", w)))
				}
				runErr := cmd.Run()
				ef.Close()
				js, noff := readJournal(journal, off)
				off = noff
				aggMu.Lock()
				for _, r := range js.results {
					agg.add(r)
				}
				aggMu.Unlock()
				if runErr == nil {
					os.Remove(errFile)
					return
				}
				// abnormal exit: attribute to the last begun, unfinished case
				if js.lastBegin < 0 || js.lastBegin == js.lastEnd {
					aggMu.Lock()
					broken = fmt.Sprintf("worker %d died outside a case: %v: %s", w, runErr, firstFatal(errFile))
					aggMu.Unlock()
					return
				}
				crashed := js.lastBegin
				aggMu.Lock()
				if js.timedOut == crashed {
					agg.Cases++
					agg.Inconclusive["watchdog"]++
					watchdogs++
				} else if js.deadlock == crashed {
					agg.Cases++
					agg.Crashes++
					props := m.CrashProps
					if len(props) == 0 {
						props = []string{"C06"}
					}
					for _, p := range props {
						agg.Violations = append(agg.Violations, Violation{
							Prop: p, Key: "deadlock",
							Msg:    fmt.Sprintf("case %d never returns: every goroutine working on it is parked with nobody left to wake it (%s)", crashed, js.deadlockInfo),
							Detail: map[string]interface{}{"case": crashed},
						})
					}
				} else if js.memOut == crashed {
					agg.Cases++
					agg.Crashes++
					props := m.CrashProps
					if len(props) == 0 {
						props = []string{"C06"}
					}
					for _, p := range props {
						agg.Violations = append(agg.Violations, Violation{
							Prop: p, Key: "unbounded-memory",
							Msg:    fmt.Sprintf("case %d drove the worker's heap above %d MiB (unbounded allocation, e.g. a non-terminating loop that appends)", crashed, memLimit>>20),
							Detail: map[string]interface{}{"case": crashed},
						})
					}
				} else {
					agg.Cases++
					agg.Crashes++
					why := firstFatal(errFile)
					props := m.CrashProps
					if len(props) == 0 {
						props = []string{"C06"}
					}
					for _, p := range props {
						agg.Violations = append(agg.Violations, Violation{
							Prop: p, Key: "crash/" + crashKey(why),
							Msg:    fmt.Sprintf("worker process died during case %d: %s", crashed, why),
							Detail: map[string]interface{}{"case": crashed, "stderr": errFile},
						})
					}
				}
				aggMu.Unlock()
				start = crashed + workers
				restarts++
				if restarts-watchdogs >= 4 {
					// four cases of this worker ended the process (deadlock,
					// unbounded memory, fatal error): each is reported above;
					// its remaining cases are not run, they would cost 10+ s
					// apiece and the verdict is already "violated"
					aggMu.Lock()
					left := int64(0)
					for i := start; i < n; i += workers {
						left++
					}
					agg.Obs["cases_not_run_after_4_fatal_cases_of_one_worker"] += left
					aggMu.Unlock()
					return
				}
				if watchdogs >= 3 {
					// three cases of this worker hit the wall-clock watchdog:
					// give up on its remaining cases instead of spending
					// minutes on each; the run is reported as inconclusive
					aggMu.Lock()
					agg.Inconclusive["abandoned-after-3-watchdogs"]++
					if broken == "" {
						broken = fmt.Sprintf("worker %d abandoned: 3 cases exceeded the %v wall-clock watchdog (inconclusive, not a verdict)", w, caseTimeoutDefault)
					}
					aggMu.Unlock()
					return
				}
				if restarts > 2000 {
					aggMu.Lock()
					broken = "too many worker restarts"
					aggMu.Unlock()
					return
				}
			}
		}(w)
	}
	wg.Wait()

	run := &RunInfo{Prop: prop, Tier: tier, Seed: seed, Dir: dir}
	if m.Post != nil {
		m.Post(run, agg)
	}

	// verdicts
	known := loadKnownFindings()
	exit := 0
	reportedKnown := map[string]bool{}
	nviol := 0
	replayDir := filepath.Join(verifDir(), "replays", prop)
	seenKeys := map[string]int{}
	for i, v := range agg.Violations {
		if v.Prop == "HARNESS" {
			fmt.Printf("HARNESS-ERROR: %s\n", firstLine(v.Msg))
			broken = "harness error: " + firstLine(v.Msg)
			continue
		}
		if kf, ok := known[v.Prop+"|"+v.Key]; ok {
			if !reportedKnown[v.Prop+"|"+v.Key] {
				fmt.Printf("KNOWN-FINDING: property=%s %s\n", v.Prop, kf)
				reportedKnown[v.Prop+"|"+v.Key] = true
			}
			// the evidence shows that the listed finding was observed again
			agg.Obs["known_finding_observed."+v.Key]++
			continue
		}
		nviol++
		seenKeys[v.Prop+"|"+v.Key]++
		if seenKeys[v.Prop+"|"+v.Key] > 3 {
			continue // do not flood: at most three witnesses per finding key
		}
		os.MkdirAll(replayDir, 0o755)
		path := filepath.Join(replayDir, fmt.Sprintf("%s-%s-seed%d-%d.json", v.Prop, tier, seed, i))
		wb, _ := json.MarshalIndent(map[string]interface{}{
			"property": v.Prop, "found_by_check": prop, "tier": tier, "seed": seed, "key": v.Key, "msg": v.Msg, "detail": v.Detail,
		}, "", " ")
		os.WriteFile(path, wb, 0o644)
		fmt.Printf("VIOLATION property=%s replay=%s\n", v.Prop, path)
		fmt.Printf("  key=%s: %s\n", v.Key, firstLine(v.Msg))
		exit = 1
	}

	floor := ""
	if m.Floor != nil {
		floor = m.Floor(tier, agg)
	}
	if len(agg.Distinct) < 2 && floor == "" {
		floor = fmt.Sprintf("only %d distinct non-trivial cases observed", len(agg.Distinct))
	}

	writeEvidence(m, tier, seed, agg, nviol, time.Since(t0).Seconds(), floor, broken)

	fmt.Printf("%s %s seed=%d: cases=%d evaluations=%d distinct_nontrivial=%d skipped=%v inconclusive=%v crashes=%d violations=%d wall=%.1fs\n",
		prop, tier, seed, agg.Cases, agg.Evals, len(agg.Distinct), agg.Skips, agg.Inconclusive, agg.Crashes, nviol, time.Since(t0).Seconds())
	keys := make([]string, 0, len(agg.Obs))
	for k := range agg.Obs {
		keys = append(keys, k)
	}
	sort.Strings(keys)
	for _, k := range keys {
		fmt.Printf("  observed %-40s %d\n", k, agg.Obs[k])
	}
	for _, k := range sortedKeys(agg.Max) {
		fmt.Printf("  max      %-40s %d\n", k, agg.Max[k])
	}
	if exit == 0 && os.Getenv("VERIF_KEEP") == "" {
		os.RemoveAll(dir)
	}
	if broken != "" {
		fmt.Printf("BROKEN-RUN: %s\n", broken)
		if exit == 0 {
			exit = 2
		}
	}
	if floor != "" && exit == 0 {
		fmt.Printf("INCONCLUSIVE-RUN: %s\n", floor)
		exit = 2
	}
	return exit
}

func firstLine(s string) string {
	s = strings.TrimLeft(s, "\n\t ")
	if i := strings.IndexByte(s, '\n'); i >= 0 {
		s = s[:i]
	}
	if len(s) > 400 {
		s = s[:400]
	}
	return s
}

var crashKeyRe = regexp.MustCompile(`[^a-zA-Z]+`)

func crashKey(why string) string {
	w := why
	if i := strings.Index(w, " | "); i >= 0 {
		w = w[:i]
	}
	w = crashKeyRe.ReplaceAllString(w, "-")
	if len(w) > 60 {
		w = w[:60]
	}
	return strings.Trim(w, "-")
}

// ---------------------------------------------------------------------------
// Known findings
// ---------------------------------------------------------------------------

// loadKnownFindings parses KNOWN_FINDINGS.txt: lines
//
//	open: property=<ID> key=<finding key> <what fails>
//	fixed: property=<ID> <commit> <what failed>      (suppresses nothing)
func loadKnownFindings() map[string]string {
	out := map[string]string{}
	b, err := os.ReadFile(filepath.Join(verifDir(), "KNOWN_FINDINGS.txt"))
	if err != nil {
		return out
	}
	for _, line := range strings.Split(string(b), "\n") {
		line = strings.TrimSpace(line)
		if !strings.HasPrefix(line, "open:") {
			continue
		}
		f := strings.Fields(line[len("open:"):])
		var prop, key string
		var rest []string
		for _, x := range f {
			switch {
			case strings.HasPrefix(x, "property=") && prop == "":
				prop = x[len("property="):]
			case strings.HasPrefix(x, "key=") && key == "":
				key = x[len("key="):]
			default:
				rest = append(rest, x)
			}
		}
		if prop != "" && key != "" {
			out[prop+"|"+key] = strings.Join(rest, " ")
		}
	}
	return out
}

// ---------------------------------------------------------------------------
// Evidence
// ---------------------------------------------------------------------------

func writeEvidence(m *Monitor, tier string, seed int64, a *Agg, nviol int, wall float64, floor, broken string) {
	cov := map[string]interface{}{
		"evaluations":         a.Evals,
		"distinct_nontrivial": len(a.Distinct),
		"rule":                m.Rule,
		"samples":             a.Samples,
		"cases":               a.Cases,
		"skipped":             a.Skips,
		"inconclusive":        a.Inconclusive,
		"worker_crashes":      a.Crashes,
		"observed":            a.Obs,
		"observed_max":        a.Max,
	}
	if len(a.Samples) == 0 {
		cov["samples"] = []interface{}{"(no sample recorded)"}
	}
	if floor != "" {
		cov["run_inconclusive"] = floor
	}
	if broken != "" {
		cov["run_broken"] = broken
	}
	ev := map[string]interface{}{
		"property_id": m.ID,
		"tier":        tier,
		"seed":        seed,
		"level":       "exploration",
		"coverage":    cov,
		"assumptions": append([]string{}, m.Assumptions...),
		"wall_s":      wall,
		"violations":  nviol,
	}
	var buf bytes.Buffer
	enc := json.NewEncoder(&buf)
	enc.SetEscapeHTML(false)
	enc.SetIndent("", " ")
	enc.Encode(ev)
	dir := filepath.Join(verifDir(), "evidence")
	os.MkdirAll(dir, 0o755)
	os.WriteFile(filepath.Join(dir, m.ID+".json"), buf.Bytes(), 0o644)
}
