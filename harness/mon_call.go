package main

import (
	"fmt"
	"math/rand"
	"strings"

	am "github.com/hashicorp/go-argmapper"
)

// ---------------------------------------------------------------------------
// Shared checks applied to every monitored Call (whatever property the
// workload was generated for): C01 binding, C02 refusal, C04 error identity,
// C06 no panic, C17 result shape on failure.
// ---------------------------------------------------------------------------

type callFacts struct {
	fMay, fMust Fix
}

func factsOf(s *Scenario) callFacts {
	return callFacts{fMay: fixpoint(s, may), fMust: fixpoint(s, must)}
}

// factsNow is factsOf for an instance with history: a run-once converter
// that has already executed hands out its memoized result whatever its own
// inputs (that is what run-once means), so from then on it is a provider.
func factsNow(in *Inst) callFacts {
	s := in.S
	s.Convs = append([]FuncSpec{}, in.S.Convs...)
	for i := range s.Convs {
		if s.Convs[i].Once && in.W.Execs(i) > 0 {
			s.Convs[i].In = nil
		}
	}
	return factsOf(&s)
}

func eventsStr(evs []*Event) string {
	var p []string
	for _, e := range evs {
		p = append(p, e.String())
	}
	return strings.Join(p, " ; ")
}

func targetEvents(evs []*Event) int {
	n := 0
	for _, e := range evs {
		if e.Func == -1 {
			n++
		}
	}
	return n
}

func convEvents(evs []*Event) int {
	n := 0
	for _, e := range evs {
		if e.Func >= 0 {
			n++
		}
	}
	return n
}

// checkCall applies the universal oracles to one Call outcome.
func checkCall(in *Inst, o *Outcome, cf *callFacts, call int, minSeq int, res *CaseResult) {
	s := &in.S
	detail := func() interface{} {
		return map[string]interface{}{"scenario": s.String(), "class": o.Class, "err": errStr(o.Err), "panic": o.Panic, "events": eventsStr(o.Events)}
	}
	// C06: no panic on well-formed use
	if o.Class == ClsPanic {
		res.violate("C06", "panic/"+crashKey(o.Panic), "Call panicked: "+o.Panic, detail())
	}
	// C01: bindings
	for _, msg := range checkBinding(in.W, o.Events, BindingOpts{AllowedCalls: map[int]bool{call: true}, MinSeq: minSeq}) {
		res.violate("C01", "binding/"+bindingKind(msg), msg, detail())
	}
	if o.Touched != "" {
		// the caller's option list is no longer what the caller wrote: the
		// next call given the same list is not given the same values
		res.violate("C01", "caller-option-slice-written", "Call wrote into the caller's option slice: "+o.Touched, detail())
	}
	if o.Class == ClsPanic {
		return
	}
	// C02: unsatisfiable calls are refused
	if !cf.fMay.AllOK {
		if o.Err == nil {
			res.violate("C02", "underivable-accepted", "a target parameter is not derivable yet Call returned no error", detail())
		}
		if targetEvents(o.Events) > 0 {
			res.violate("C02", "underivable-target-ran", "a target parameter is not derivable yet the target body was executed", detail())
		}
		if cf.fMust.AllConvs && o.Err != nil && o.Class != ClsUnsat {
			res.violate("C02", "underivable-wrong-error", fmt.Sprintf("every converter is satisfiable, parameter underivable, but the error is not ErrArgumentUnsatisfied (class %s: %v)", o.Class, firstLine(errStr(o.Err))), detail())
		}
	}
	// C04: error identity and abort
	var firstFail *Event
	for _, e := range o.Events {
		if e.Err != nil {
			firstFail = e
			break
		}
	}
	if firstFail != nil {
		if !sameErr(o.Err, firstFail.Err) {
			res.violate("C04", "error-not-verbatim", fmt.Sprintf("f%d returned an error but Call returned %q", firstFail.Func, firstLine(errStr(o.Err))), detail())
		}
		if last := o.Events[len(o.Events)-1]; last != firstFail {
			res.violate("C04", "continued-after-error", fmt.Sprintf("f%d failed but f%d was executed afterwards", firstFail.Func, last.Func), detail())
		}
	} else if o.Class == ClsConvErr {
		// an error value of some body although nothing failed in this call:
		// only legitimate for a memoised run-once failure of an earlier call
		if !in.W.onceErr(o.Err) {
			res.violate("C04", "phantom-converter-error", "Call returned a converter's error value although no converter failed in this call", detail())
		}
	}
	if o.Err == nil && firstFail != nil {
		res.violate("C04", "error-swallowed", "a converter failed but the result carries no error", detail())
	}
	// C17: resolution failure => Len 0
	if o.Err != nil && targetEvents(o.Events) == 0 && o.Res.Len() != 0 {
		res.violate("C17", "len-on-failure", fmt.Sprintf("resolution failed but Len() = %d", o.Res.Len()), detail())
	}
	// successful call: the target ran exactly once
	if o.Err == nil && targetEvents(o.Events) != 1 {
		res.violate("C04", "target-count", fmt.Sprintf("successful call executed the target %d times", targetEvents(o.Events)), detail())
	}
}

func (w *World) onceErr(err error) bool {
	w.mu.Lock()
	defer w.mu.Unlock()
	seq, ok := w.errs[errKey(err)]
	if !ok {
		return false
	}
	return w.specs[w.events[seq].Func].Once
}

func errStr(err error) string {
	if err == nil {
		return ""
	}
	s := err.Error()
	if len(s) > 2000 {
		s = s[:2000]
	}
	return s
}

func bindingKind(msg string) string {
	switch {
	case strings.Contains(msg, "fabricated"):
		return "fabricated"
	case strings.Contains(msg, "mis-labelled"):
		return "mislabelled"
	case strings.Contains(msg, "unknown id"):
		return "unknown"
	case strings.Contains(msg, "not assignable"):
		return "type"
	case strings.Contains(msg, "another call"):
		return "cross-call"
	case strings.Contains(msg, "later event"):
		return "causality"
	case strings.Contains(msg, "stale"):
		return "stale"
	}
	return "other"
}

// traceSig is a compact signature of an execution (which functions ran, in
// which order, fed from which sources) used to count distinct tie-breaks.
func traceSig(w *World, evs []*Event) string {
	var b strings.Builder
	for _, e := range evs {
		fmt.Fprintf(&b, "f%d(", e.Func)
		for _, a := range e.Args {
			if o := w.Origin(a.ID); o != nil {
				if o.Kind == OInput {
					fmt.Fprintf(&b, "i%d,", o.Func)
				} else {
					fmt.Fprintf(&b, "f%d.%d,", o.Func, o.OutIdx)
				}
			} else {
				b.WriteString("?,")
			}
		}
		b.WriteString(")")
	}
	return b.String()
}

// runScenario instantiates and calls a scenario reps times, applying the
// universal checks. It returns per-repetition outcomes.
type repOut struct {
	Class string
	Sig   string
	O     Outcome
	In    *Inst
}

func runScenario(ctx *CaseCtx, s Scenario, r *rand.Rand, reps int, res *CaseResult, after func(in *Inst, o *Outcome)) ([]repOut, callFacts) {
	return runScenarioX(ctx, s, r, reps, res, nil, after)
}

// runScenarioX additionally lets the caller prepare each fresh instance
// (e.g. make one input the zero value of its type) before the call.
func runScenarioX(ctx *CaseCtx, s Scenario, r *rand.Rand, reps int, res *CaseResult, prep func(in *Inst), after func(in *Inst, o *Outcome)) ([]repOut, callFacts) {
	cf := factsOf(&s)
	var outs []repOut
	for k := 0; k < reps; k++ {
		in, err := Instantiate(s, r)
		if err != nil {
			if err == errDupType {
				res.Skip = "dup-go-type"
			} else {
				res.violate("C06", "newfunc-rejected", "NewFunc/BuildFunc rejected a well-formed generated function: "+err.Error(), map[string]interface{}{"scenario": s.String()})
			}
			return outs, cf
		}
		if prep != nil {
			prep(in)
		}
		args := in.AllArgs(0, r)
		if r.Intn(5) == 0 {
			pollute(r)
			res.obs("operations_preceded_by_an_unrelated_failing_one", 1)
		}
		o := DoCall(in.W, in.Target.Func, args)
		res.Evals++
		checkCall(in, &o, &cf, 0, 0, res)
		if after != nil {
			after(in, &o)
		}
		if in.ViaSetUsed > 0 {
			res.obs("calls_with_inputs_through_ValueSet.Args", int64(in.ViaSetUsed))
		}
		res.obs("events", int64(len(o.Events)))
		res.obs("converter_executions", int64(convEvents(o.Events)))
		res.obs("class."+o.Class, 1)
		res.max("max_events_per_call", int64(len(o.Events)))
		outs = append(outs, repOut{Class: o.Class, Sig: traceSig(in.W, o.Events), O: o, In: in})
		if ctx.Verbose {
			fmt.Printf("rep %d: class=%s err=%q panic=%q\n  events: %s\n", k, o.Class, firstLine(errStr(o.Err)), o.Panic, eventsStr(o.Events))
		}
	}
	return outs, cf
}

func distinctSigs(outs []repOut) int {
	m := map[string]bool{}
	for _, o := range outs {
		m[o.Sig] = true
	}
	return len(m)
}

func sampleOf(s Scenario, outs []repOut) interface{} {
	m := map[string]interface{}{"scenario": s.String()}
	if len(outs) > 0 {
		m["class"] = outs[0].Class
		m["events"] = eventsStr(outs[0].O.Events)
	}
	return m
}

// pickScenario draws from the generator mix used by C01/C02/C06.
// denseCases makes one G-general case in four larger than usual (more
// supplied values, converters and parameters); set per case by the monitors
// for their thorough tier.
var denseCases bool

var denseCfg = func() GenCfg {
	c := defaultCfg
	c.MaxIn, c.MaxConv, c.MaxTgt = 5, 9, 4
	c.Names = []string{"a", "b", "c", "d"}
	return c
}()

func pickGeneralMix(r *rand.Rand) (Scenario, string) {
	s, fam := pickGeneralMix0(r)
	if r.Intn(8) == 0 {
		// same model over unnamed / mutually assignable / func / chan types
		return exoticize(s, r), fam
	}
	return s, fam
}

func pickGeneralMix0(r *rand.Rand) (Scenario, string) {
	x := r.Intn(100)
	switch {
	case x < 55:
		if denseCases && r.Intn(4) == 0 {
			return denseCfg.Scenario(r), "general-dense"
		}
		return defaultCfg.Scenario(r), "general"
	case x < 70:
		s, fam := Hostile(r)
		return s, "hostile/" + fam
	case x < 85:
		s, _ := Constructive(r, ChainCfg{MaxTgt: 3, MaxDepth: 4, MultiIn: true, Distract: 3, BuiltP: 0.15, OnceP: 0.1, Subtypes: true, Ifaces: true, ErrP: 0.3, DistractIn: 2})
		return s, "dag"
	default:
		s, _ := Constructive(r, ChainCfg{MaxTgt: 2, MaxDepth: 5, Cycles: true, Distract: 2, BuiltP: 0.1, Subtypes: true, Ifaces: true, ErrP: 0.3, DistractIn: 2})
		return s, "cycle"
	}
}

func tierN(tier string, quick, thorough int) int {
	if tier == "thorough" {
		return thorough
	}
	return quick
}

func tierReps(tier string, quick, thorough int) int { return tierN(tier, quick, thorough) }

// ---------------------------------------------------------------------------
// C01
// ---------------------------------------------------------------------------

func init() {
	register(&Monitor{
		ID:    "C01",
		Cases: func(t string) int { return tierN(t, 6000, 150000) },
		Rule: "cases = G-general (55%) + hostile families (15%) + constructive DAGs (15%) + constructive cyclic single-input sets (15%), " +
			"each executed R times in fresh worlds; every argument seen by every generated body is checked against the provenance table and the MAY table; " +
			"half of the repetitions continue on the same objects with Redefine, a call of the redefined function and a second Call; one case in ten supplies the zero value of a type as an input; " +
			"non-trivial = at least one converter executed with >= 1 argument; distinct = distinct canonical scenario strings",
		Assumptions: []string{
			"bodies are generated with reflect.MakeFunc/BuildFunc; the boundary at which arguments are observed is the generated body itself",
			"type universe: 6 concrete + 2 interface types, <= 7 converters, names {a,b,c}, subtypes {x,y}",
			"map-iteration order (tie-breaking) is sampled by repetition, not enumerated",
		},
		Run: func(c *CaseCtx) CaseResult {
			var res CaseResult
			r := caseRand(c.Seed, "C01", c.Idx)
			denseCases = c.Tier == "thorough"
			if c.Idx%16 == 9 {
				runDefaultsHistory(c, r, &res, nil)
				return res
			}
			if c.Idx%75 == 7 {
				return runC01SamePrinting(c, r)
			}
			if c.Idx%97 == 41 {
				return runC01TwinSubtypeOutputs(c, r)
			}
			if c.Idx == 13 {
				return runC01TwinInterfaceSubtypeHop(c, r)
			}
			s, fam := pickGeneralMix(r)
			if c.Idx%13 == 6 {
				// free-form subtypes (key=value, words, punctuation, "%2C")
				s = oddSubs(s)
				res.obs("cases_with_free_form_subtypes", 1)
			}
			if c.Idx%13 == 10 {
				// supplied values carry the functions' subtypes in UPPER case
				// (a different subtype: only names are case-insensitive)
				s = caseSubs(s)
				res.obs("cases_with_subtypes_that_differ_in_case_only", 1)
			}
			res.Key = s.Key()
			if usesExotic(s) {
				res.obs("cases_over_exotic_types", 1)
			}
			reps := tierReps(c.Tier, 3, 8)
			zero := -1
			if len(s.Inputs) > 0 && r.Intn(10) == 0 {
				zero = r.Intn(len(s.Inputs)) // one supplied value is the zero value of its type
				res.obs("cases_with_a_zero_valued_input", 1)
			}
			count := func(evs []*Event) {
				for _, e := range evs {
					if e.Func >= 0 && len(e.Args) > 0 {
						res.NonTrivial = true
					}
					res.obs("arguments_checked", int64(len(e.Args)))
				}
			}
			viaSet := r.Intn(8) == 0
			if viaSet {
				res.obs("cases_with_inputs_through_ValueSet.Args", 1)
			}
			mixIn := r.Intn(6) == 0
			outs, _ := runScenarioX(c, s, r, reps, &res, func(in *Inst) {
				in.ZeroInput1 = zero + 1
				in.ViaSet = viaSet
				in.StaleUpper = c.Idx%11 == 4
				if mixIn {
					in.MixCase = r
				}
			}, func(in *Inst, o *Outcome) {
				count(o.Events)
				if o.Class == ClsPanic || r.Intn(2) == 0 {
					return
				}
				// the same objects again: Redefine (planning must leave them
				// untouched), a call of the redefined function, a second Call
				det := func(api string, x *Outcome) interface{} {
					return map[string]interface{}{"scenario": s.String(), "api": api, "class": x.Class, "err": firstLine(errStr(x.Err)), "events": eventsStr(x.Events)}
				}
				if r.Intn(3) == 0 && touchInputSet(in.W, in.Target.Func, 40, r) {
					// the target's own input value set now holds values of an
					// unrelated use
					res.obs("histories_with_a_written_input_value_set", 1)
				}
				ropts := in.AllArgs(1, r)
				if r.Intn(2) == 0 {
					f, _ := randomFilter(r)
					ropts = append(ropts, am.FilterInput(f))
				}
				o2 := DoRedefine(in.W, in.Target.Func, ropts)
				res.Evals++
				if o2.Func != nil && o2.Err == nil && o2.Class == ClsOK {
					args, _, _ := redefinedArgs(in.W, o2.Func, 1, r)
					n1 := in.W.NumEvents()
					o3 := DoCall(in.W, o2.Func, args)
					res.Evals++
					for _, msg := range checkBinding(in.W, o3.Events, BindingOpts{AllowedCalls: map[int]bool{1: true}, MinSeq: n1, Via: declaredInputs(o2.Func)}) {
						res.violate("C01", "binding/"+bindingKind(msg), "redefined function: "+msg, det("call-redefined", &o3))
					}
					count(o3.Events)
					res.obs("redefined_calls", 1)
				}
				n2 := in.W.NumEvents()
				cfNow := factsNow(in) // before the call: what is memoized now
				o4 := DoCall(in.W, in.Target.Func, in.AllArgs(2, r))
				res.Evals++
				checkCall(in, &o4, &cfNow, 2, n2, &res)
				count(o4.Events)
				res.obs("second_calls_on_the_same_objects", 1)
			})
			res.obs("family."+fam, 1)
			res.max("distinct_traces_per_case", int64(distinctSigs(outs)))
			res.Sample = sampleOf(s, outs)
			return res
		},
		Floor: func(tier string, a *Agg) string {
			if a.Obs["arguments_checked"] < 1000 {
				return "fewer than 1000 arguments observed"
			}
			return ""
		},
	})
}

// ---------------------------------------------------------------------------
// C02
// ---------------------------------------------------------------------------

func init() {
	register(&Monitor{
		ID:         "C02",
		CrashProps: []string{"C02", "C06"},
		Cases:      func(t string) int { return tierN(t, 6000, 150000) },
		Rule: "same generator mix as C01 with more hostile shapes; a case is in scope when some target parameter is outside the MAY least fix-point; " +
			"oracle: Err()!=nil, target body never executed, no fabricated argument (C01 monitor), and ErrArgumentUnsatisfied when every converter is MUST-satisfiable; " +
			"three history families (1 case in 12 each): a target Func with a subtyped default value that is called with, without, with (and Redefined with) a critical value sharing the default's name or type; a target lacking one critical input whose default options share a caller-owned list with another function that IS given that input; a run-once TARGET that succeeded once and is then called without a critical input; " +
			"non-trivial = underivable parameter for which some label of its type exists in the case (so its vertex is not trivially absent)",
		Assumptions: []string{
			"underivable means: outside the least fix-point under the MAY table (a conforming implementation may match fewer pairs than MAY, never more)",
			"type universe: 6 concrete + 2 interface types, <= 7 converters",
		},
		Run: func(c *CaseCtx) CaseResult {
			var res CaseResult
			r := caseRand(c.Seed, "C02", c.Idx)
			denseCases = c.Tier == "thorough"
			if c.Idx%12 == 11 {
				return runC02SharedDefaults(c, r)
			}
			if c.Idx%12 == 5 {
				return runC02OnceTarget(c, r)
			}
			if c.Idx%60 == 2 {
				return runC02Embedded(c, r)
			}
			if c.Idx%53 == 7 {
				return runC02GeneratorChain(c, r)
			}
			if c.Idx%59 == 11 {
				return runC02WideConverter(c, r)
			}
			if c.Idx%12 == 8 {
				runDefaultsHistory(c, r, &res, nil)
				if res.Skip == "" {
					res.obs("underivable_cases", 1)
				}
				return res
			}
			var s Scenario
			var fam string
			if r.Intn(100) < 35 {
				s, fam = Hostile(r)
				fam = "hostile/" + fam
				// sometimes remove an input to make things underivable
				if len(s.Inputs) > 0 && r.Intn(3) == 0 {
					s.Inputs = s.Inputs[1:]
				}
			} else {
				s, fam = pickGeneralMix(r)
				if fam != "general" && len(s.Inputs) > 0 && r.Intn(2) == 0 {
					// break a constructive case by dropping one input
					i := r.Intn(len(s.Inputs))
					s.Inputs = append(append([]Label{}, s.Inputs[:i]...), s.Inputs[i+1:]...)
					fixDelivery(&s, r)
				}
			}
			if c.Idx%7 == 4 {
				// free-form subtypes (key=value, words, punctuation)
				s = oddSubs(s)
				res.obs("cases_with_free_form_subtypes", 1)
			}
			res.Key = s.Key()
			if usesExotic(s) {
				res.obs("cases_over_exotic_types", 1)
			}
			cf := factsOf(&s)
			if cf.fMay.AllOK {
				res.Skip = "derivable"
			}
			reps := tierReps(c.Tier, 3, 8)
			// history, one case in three: the same objects have first served
			// a call in which every target parameter was supplied directly
			// (so the target, built ones included, has run once with real
			// values); the underivable call is refused all the same
			warm := !cf.fMay.AllOK && r.Intn(3) == 0
			for _, cv := range s.Convs {
				if cv.Once {
					warm = false // a memoized run-once converter legitimately changes what is derivable
				}
			}
			outs, _ := runScenarioX(c, s, r, reps, &res, func(in *Inst) {
				// one case in five hands the inputs over as ValueSet.Args()
				in.ViaSet = c.Idx%5 == 3
				if !warm {
					return
				}
				args := append([]am.Arg{}, in.ConvArgs...)
				for i, p := range s.Target.In {
					conc := concreteFor(p.Type, r)
					src := Label{Name: p.Name, Type: conc, Sub: p.Sub}
					if isIface(p.Type) {
						src.Name = ""
					}
					args = append(args, InputArg(src, in.W.FreshInput(90, 600+i, src)))
				}
				DoCall(in.W, in.Target.Func, args)
				res.Evals++
				res.obs("underivable_calls_after_a_satisfied_call_on_the_same_objects", 1)
				if c.Idx%4 == 1 {
					// ... through a caller's wrapper built over the target's
					// OWN input and output sets (the documented
					// BuildFunc(f.Input(), f.Output(), cb) pattern), which
					// the library fills with the values of that call
					tf := in.Target.Func
					if px, err := am.BuildFunc(tf.Input(), tf.Output(), func(vin, vout *am.ValueSet) error {
						rr := tf.Call(append(append([]am.Arg{}, in.ConvArgs...), vin.Args()...)...)
						if rr.Err() != nil {
							return rr.Err()
						}
						return vout.FromResult(rr)
					}); err == nil {
						if o := DoCall(in.W, px, args); o.Class == ClsOK {
							res.obs("underivable_calls_after_a_satisfied_wrapper_call_over_the_targets_own_sets", 1)
						}
						res.Evals++
					}
				}
				if c.Idx%2 == 0 {
					// ... and a function redefined from the target (only the
					// converters fixed, every parameter still an input) has
					// been called with those values: a wrapper built over
					// the target's own input and output sets has run
					if ro := DoRedefine(in.W, in.Target.Func, append([]am.Arg{}, in.ConvArgs...)); ro.Func != nil && ro.Err == nil {
						if o := DoCall(in.W, ro.Func, args); o.Class == ClsOK {
							res.obs("underivable_calls_after_a_satisfied_redefined_call_on_the_same_objects", 1)
						}
						res.Evals += 2
					}
				}
			}, nil)
			res.obs("family."+fam, 1)
			if !cf.fMay.AllOK {
				res.obs("underivable_cases", 1)
				if cf.fMust.AllConvs {
					res.obs("underivable_all_converters_satisfiable", 1)
				}
				for i, ok := range cf.fMay.TargetOK {
					if !ok && !hopeless(&s, s.Target.In[i]) {
						res.NonTrivial = true
					}
				}
				for _, o := range outs {
					if o.Class == ClsUnsat {
						res.obs("refused_with_unsatisfied_error", 1)
					} else if o.O.Err != nil {
						res.obs("refused_with_other_error", 1)
					}
				}
			}
			res.Sample = sampleOf(s, outs)
			return res
		},
		Floor: func(tier string, a *Agg) string {
			if a.Obs["underivable_cases"] < 200 {
				return "fewer than 200 underivable cases"
			}
			return ""
		},
	})
}

// runC02SharedDefaults: a target that lacks one input must stay refused even
// after another function, whose default options come from the same
// caller-owned list, was called with exactly that input.
func runC02SharedDefaults(c *CaseCtx, r *rand.Rand) (res CaseResult) {
	s, _ := Constructive(r, ChainCfg{MaxTgt: 2, MaxDepth: 3, MultiIn: r.Intn(2) == 0, Distract: 1, BuiltP: 0, ErrP: 0.3})
	// find an input whose removal makes the target underivable
	drop := -1
	for _, i := range r.Perm(len(s.Inputs)) {
		t := s
		t.Inputs = append(append([]Label{}, s.Inputs[:i]...), s.Inputs[i+1:]...)
		if f := fixpoint(&t, may); !f.AllOK {
			drop = i
			break
		}
	}
	if drop < 0 {
		res.Skip = "no-critical-input"
		return res
	}
	x := s.Inputs[drop]
	s.Inputs = append(append([]Label{}, s.Inputs[:drop]...), s.Inputs[drop+1:]...)
	for i := range s.Convs {
		s.Convs[i].Deliver = DelFunc
	}
	res.Key = "shared-defaults " + s.Key() + " missing " + x.String()
	res.NonTrivial = true
	res.obs("family.shared-defaults", 1)
	res.obs("underivable_cases", 1)
	cf := factsOf(&s)
	w := NewWorld()
	list := make([]am.Arg, 0, 8)
	list = append(list, am.FuncName("fA"), am.FuncName("fB"))
	in := &Inst{W: w, S: s}
	w.NextDefaults = list[:2]
	t, err := w.Build(-1, s.Target, r)
	if err != nil {
		res.Skip = "instantiate"
		return res
	}
	in.Target = t
	for i, cs := range s.Convs {
		b, err := w.Build(i, cs, r)
		if err != nil {
			res.Skip = "instantiate"
			return res
		}
		in.Convs = append(in.Convs, b)
		in.ConvArgs = append(in.ConvArgs, am.ConverterFunc(b.Func))
	}
	// the other function takes X and has the shorter prefix as defaults
	w.NextDefaults = list[:1]
	other, err := w.Build(-20, FuncSpec{In: []Label{{Type: x.Type}}, InForm: FormPos, OutForm: FormPos}, r)
	if err != nil {
		res.Skip = "instantiate"
		return res
	}
	for k := 0; k < 3; k++ {
		n0 := w.NumEvents()
		o := DoCall(w, in.Target.Func, in.AllArgs(2*k, r))
		res.Evals++
		checkCall(in, &o, &cf, 2*k, n0, &res)
		if o.Class == ClsUnsat {
			res.obs("refused_with_unsatisfied_error", 1)
		}
		// another function, another call: X is supplied there and only there
		id := w.FreshInput(2*k+1, 900, x)
		DoCall(w, other.Func, []am.Arg{InputArg(x, id)})
		res.Evals++
	}
	res.Sample = map[string]interface{}{"scenario": s.String(), "missing_input": x.String(), "family": "shared-defaults"}
	return res
}

// runC02OnceTarget: a run-once TARGET that has already succeeded must still
// refuse a later call whose arguments cannot be derived (memoization is about
// not executing again, not about skipping resolution).
func runC02OnceTarget(c *CaseCtx, r *rand.Rand) (res CaseResult) {
	s, _ := Constructive(r, ChainCfg{MaxTgt: 2, MaxDepth: 3, MultiIn: r.Intn(2) == 0, Distract: 1, BuiltP: 0, ErrP: 0.3})
	drop := -1
	for _, i := range r.Perm(len(s.Inputs)) {
		t := s
		t.Inputs = append(append([]Label{}, s.Inputs[:i]...), s.Inputs[i+1:]...)
		if f := fixpoint(&t, may); !f.AllOK {
			drop = i
			break
		}
	}
	if drop < 0 {
		res.Skip = "no-critical-input"
		return res
	}
	for i := range s.Convs {
		s.Convs[i].Deliver, s.Convs[i].Once = DelFunc, false
	}
	s.Target.Once = true
	res.Key = "once-target " + s.Key()
	res.NonTrivial = true
	res.obs("family.once-target", 1)
	res.obs("underivable_cases", 1)
	in, err := Instantiate(s, r)
	if err != nil {
		res.Skip = "instantiate"
		return res
	}
	full := factsOf(&s)
	short := s
	short.Inputs = append(append([]Label{}, s.Inputs[:drop]...), s.Inputs[drop+1:]...)
	shortFacts := factsOf(&short)
	// 1. a satisfiable call (may fail with a converter error; fine)
	o1 := DoCall(in.W, in.Target.Func, in.AllArgs(0, r))
	res.Evals++
	checkCall(in, &o1, &full, 0, 0, &res)
	// 2. the same Func without the critical input, several times
	for k := 1; k <= 3; k++ {
		args := in.AllArgs(k, r)
		// drop the option of the critical input: rebuild the list without it
		var kept []am.Arg
		kept = append(kept, in.ConvArgs...)
		for i, l := range s.Inputs {
			if i != drop {
				kept = append(kept, InputArg(l, in.InputIDs[i]))
			}
		}
		_ = args
		n0 := in.W.NumEvents()
		o := DoCall(in.W, in.Target.Func, kept)
		res.Evals++
		inShort := &Inst{W: in.W, S: short, Target: in.Target, Convs: in.Convs}
		checkCall(inShort, &o, &shortFacts, k, n0, &res)
		if o.Class == ClsUnsat {
			res.obs("refused_with_unsatisfied_error", 1)
		}
	}
	res.Sample = map[string]interface{}{"scenario": s.String(), "family": "once-target", "dropped_input": s.Inputs[drop].String(), "first_call": o1.Class}
	return res
}

// runC02GeneratorChain: converter generators are shown the values of the call
// as supplied and as the GIVEN converters produce them; whether a generator is
// also shown what a converter manufactured by a generator produces is not
// written down anywhere (the pinned library does not show it). A target that
// needs the result of such a second-level converter is therefore either
// underivable (and refused, always) or derivable (and served, always): R
// identical calls must agree. A mix means that one of the two outcomes broke
// the property under either reading.
func runC02GeneratorChain(c *CaseCtx, r *rand.Rand) (res CaseResult) {
	p := r.Perm(nConcrete)
	tIn, tMid, tOut := p[0], p[1], p[2]
	var s Scenario
	s.Inputs = []Label{{Type: tIn}}
	if r.Intn(2) == 0 {
		s.Inputs[0].Name = pick(r, []string{"a", "b"})
	}
	first := posFn([]int{tIn}, []int{tMid})
	first.Deliver, first.GenTrig = DelGen, tIn
	second := posFn([]int{tMid}, []int{tOut})
	second.Deliver, second.GenTrig = DelGen, tMid
	s.Convs = []FuncSpec{first, second}
	s.Target = FuncSpec{In: []Label{{Type: tOut}}, InForm: FormPos, OutForm: FormPos}
	if r.Intn(2) == 0 {
		s.Target.In[0].Name = "n"
		s.Target.InForm = FormStruct
	}
	res.Key = "generator-chain " + s.Key()
	res.NonTrivial = true
	res.obs("family.generator-chain", 1)
	res.obs("underivable_cases", 1)
	in, err := Instantiate(s, r)
	if err != nil {
		res.Skip = "instantiate"
		return res
	}
	reps := tierReps(c.Tier, 12, 40)
	refused, served := 0, 0
	for k := 0; k < reps; k++ {
		o := DoCall(in.W, in.Target.Func, in.AllArgs(k, r))
		res.Evals++
		det := map[string]interface{}{"scenario": s.String(), "class": o.Class, "err": firstLine(errStr(o.Err)), "events": eventsStr(o.Events)}
		switch {
		case o.Class == ClsPanic:
			res.violate("C06", "panic/"+crashKey(o.Panic), "Call panicked: "+o.Panic, det)
		case o.Err != nil && targetEvents(o.Events) == 0:
			refused++
			if o.Class == ClsUnsat {
				res.obs("refused_with_unsatisfied_error", 1)
			}
		case o.Err == nil && targetEvents(o.Events) == 1:
			served++
		default:
			res.violate("C02", "underivable-target-ran", fmt.Sprintf("class %s with %d target executions", o.Class, targetEvents(o.Events)), det)
		}
	}
	if refused > 0 && served > 0 {
		res.violate("C02", "second-level-generated-converter-unstable", fmt.Sprintf("of %d identical calls %d were refused and %d executed the target: whether or not a generator is shown the output of a generated converter, one of the two outcomes is wrong", reps, refused, served), map[string]interface{}{"scenario": s.String()})
	}
	res.Sample = map[string]interface{}{"scenario": s.String(), "family": "generator-chain", "refused": refused, "served": served}
	return res
}

// runC02WideConverter: a converter with MANY inputs (17-20 named values), one
// of which nobody supplies while the others are there. The target needs its
// output: the call is refused, and the wide converter is not executed with a
// missing argument -- whatever the position of the missing input.
func runC02WideConverter(c *CaseCtx, r *rand.Rand) (res CaseResult) {
	n := 17 + r.Intn(4)
	missing := r.Intn(n)
	if c.Idx%2 == 0 {
		missing = n - 1 - r.Intn(3) // one of the last fields
	}
	var s Scenario
	wide := FuncSpec{InForm: FormStruct, OutForm: FormPos, Out: []Label{{Type: 5}}}
	if r.Intn(3) == 0 {
		wide.InForm, wide.OutForm, wide.HasErr = FormBuilt, FormBuilt, true
	}
	for i := 0; i < n; i++ {
		l := Label{Name: fmt.Sprintf("w%d", i), Type: i % 5}
		wide.In = append(wide.In, l)
		if i != missing {
			s.Inputs = append(s.Inputs, l)
		}
	}
	s.Convs = []FuncSpec{wide}
	s.Target = FuncSpec{In: []Label{{Type: 5}}, InForm: FormPos, OutForm: FormPos}
	res.Key = fmt.Sprintf("wide-converter n=%d missing=%d form=%d", n, missing, wide.InForm)
	res.NonTrivial = true
	res.obs("family.wide-converter", 1)
	res.obs("underivable_cases", 1)
	outs, _ := runScenarioX(c, s, r, tierReps(c.Tier, 2, 4), &res, nil, nil)
	for _, o := range outs {
		if o.Class == ClsUnsat {
			res.obs("refused_with_unsatisfied_error", 1)
		}
	}
	res.Sample = map[string]interface{}{"family": "wide-converter", "inputs": n, "missing": missing}
	return res
}

// runC01TwinSubtypeOutputs: a converter whose struct result has TWO type-only
// fields of one type that differ in their subtype (the pinned library only
// publishes the last of them, which is its documented limit and no business
// of C01). Whatever the call does -- refuse, or serve the consumer -- nobody
// may receive the value of the OTHER subtype.
func runC01TwinSubtypeOutputs(c *CaseCtx, r *rand.Rand) (res CaseResult) {
	tIn, tOut := r.Intn(3), 3+r.Intn(3)
	wantLeft := r.Intn(2) == 0
	var s Scenario
	s.Inputs = []Label{{Type: tIn}}
	conv := FuncSpec{In: []Label{{Type: tIn}}, Out: []Label{{Type: tOut, Sub: "left"}, {Type: tOut, Sub: "right"}}, InForm: FormPos, OutForm: FormStruct}
	if r.Intn(2) == 0 {
		conv.OutForm = FormPtr
	}
	s.Convs = []FuncSpec{conv}
	want := "right"
	if wantLeft {
		want = "left"
	}
	p := Label{Type: tOut, Sub: want}
	if r.Intn(2) == 0 {
		p.Name = "n"
	}
	s.Target = FuncSpec{In: []Label{p}, InForm: FormStruct, OutForm: FormPos}
	res.Key = "twin-subtype-outputs " + s.Key()
	res.NonTrivial = true
	res.obs("family.twin-subtype-outputs", 1)
	in, err := Instantiate(s, r)
	if err != nil {
		res.Skip = "instantiate"
		return res
	}
	for k := 0; k < tierReps(c.Tier, 4, 10); k++ {
		o := DoCall(in.W, in.Target.Func, in.AllArgs(k, r))
		res.Evals++
		det := map[string]interface{}{"scenario": s.String(), "class": o.Class, "err": firstLine(errStr(o.Err)), "events": eventsStr(o.Events)}
		if o.Class == ClsPanic {
			res.violate("C06", "panic/"+crashKey(o.Panic), "Call panicked: "+o.Panic, det)
			continue
		}
		for _, e := range o.Events {
			if e.Func != -1 || len(e.Args) == 0 {
				continue
			}
			org := in.W.Origin(e.Args[0].ID)
			if org == nil || org.Kind != OConv || org.Label.Sub != want {
				lbl := "a value nobody produced"
				if org != nil {
					lbl = org.Label.String()
				}
				res.violate("C01", "binding/mislabelled", fmt.Sprintf("the parameter %v received %s", p, lbl), det)
			}
			res.obs("arguments_checked", 1)
		}
	}
	res.Sample = map[string]interface{}{"scenario": s.String(), "family": "twin-subtype-outputs"}
	return res
}

type twinHopIn struct {
	am.Struct
	P I0 `argmapper:",typeOnly,subtype=x"`
}

type twinHopOut struct {
	am.Struct
	O I0 `argmapper:",typeOnly,subtype=y"`
}

// runC01TwinInterfaceSubtypeHop (one fixed case per run): a type-only
// parameter of interface type I0 with subtype x; the only producer of an I0
// yields subtype y; an unrelated converter takes the twin interface I0twin
// (same method set as I0), which puts a subtype-less I0twin vertex into the
// graph. I0/x and I0/y are identical types with different subtypes: the
// parameter must not receive the y value. The pinned library hands it over
// through the twin's vertex (I0/x <- I0twin <- I0/y: each hop is an
// "implements" edge) -- D38, an open known finding, reported under its own key.
func runC01TwinInterfaceSubtypeHop(c *CaseCtx, r *rand.Rand) (res CaseResult) {
	res.NonTrivial = true
	res.Key = "twin-interface-subtype-hop"
	res.obs("family.twin-interface-subtype-hop", 1)
	det := map[string]interface{}{"case": res.Key}
	defer func() {
		if p := recover(); p != nil {
			res.violate("C06", "panic/"+crashKey(fmt.Sprint(p)), fmt.Sprintf("Call panicked: %v", p), det)
		}
	}()
	var got int64
	ran := 0
	f, err := am.NewFunc(func(in twinHopIn) { ran++; got = in.P.I0tok() })
	if err != nil {
		res.Skip = "newfunc"
		return res
	}
	prov := func() twinHopOut { return twinHopOut{O: T0{ID: 4242}} }
	other := func(j I0twin) T5 { return T5{ID: 1} }
	handed := 0
	for k := 0; k < 20; k++ {
		ran, got = 0, -1
		rr := f.Call(am.Converter(prov), am.Converter(other))
		res.Evals++
		if ran > 0 && got == 4242 {
			handed++
		} else if rr.Err() == nil {
			res.violate("C01", "binding/fabricated", fmt.Sprintf("the parameter I0/x received #%d, which nobody produced", got), det)
		}
	}
	if handed > 0 {
		res.violate("C01", "binding/twin-interface-subtype-hop", fmt.Sprintf("a type-only parameter I0 with subtype x received the value a provider returned as I0 with subtype y in %d of 20 identical calls (handed over through the vertex of a distinct interface type with the same method set)", handed), det)
	}
	res.Sample = det
	return res
}
