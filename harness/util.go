package main

import (
	"encoding/json"
	"fmt"
	"hash/fnv"
	"math/rand"
	"os"
	"sort"
	"strconv"
)

// splitmix is a tiny deterministic PRNG source. Every case of every property
// is derived from (VERIF_SEED, property, case index) through it, so a case is
// re-creatable from three integers.
type splitmix struct{ s uint64 }

func (s *splitmix) next() uint64 {
	s.s += 0x9e3779b97f4a7c15
	z := s.s
	z = (z ^ (z >> 30)) * 0xbf58476d1ce4e5b9
	z = (z ^ (z >> 27)) * 0x94d049bb133111eb
	return z ^ (z >> 31)
}

func (s *splitmix) Uint64() uint64 { return s.next() }
func (s *splitmix) Int63() int64   { return int64(s.next() >> 1) }
func (s *splitmix) Seed(v int64)   { s.s = uint64(v) }

func hashStr(s string) uint64 {
	h := fnv.New64a()
	h.Write([]byte(s))
	return h.Sum64()
}

// caseRand returns the PRNG of case idx of property prop under seed.
func caseRand(seed int64, prop string, idx int) *rand.Rand {
	sm := &splitmix{s: uint64(seed)*0x9e3779b97f4a7c15 ^ hashStr(prop) ^ (uint64(idx)+1)*0xd1342543de82ef95}
	sm.next()
	sm.next()
	return rand.New(sm)
}

func envInt(name string, def int64) int64 {
	if v := os.Getenv(name); v != "" {
		if n, err := strconv.ParseInt(v, 10, 64); err == nil {
			return n
		}
	}
	return def
}

func pick[T any](r *rand.Rand, xs []T) T { return xs[r.Intn(len(xs))] }

func chance(r *rand.Rand, p float64) bool { return r.Float64() < p }

func jsonStr(v interface{}) string {
	b, err := json.Marshal(v)
	if err != nil {
		return fmt.Sprintf("%q", err.Error())
	}
	return string(b)
}

func sortedKeys[V any](m map[string]V) []string {
	ks := make([]string, 0, len(m))
	for k := range m {
		ks = append(ks, k)
	}
	sort.Strings(ks)
	return ks
}

func minInt(a, b int) int {
	if a < b {
		return a
	}
	return b
}

func maxInt(a, b int) int {
	if a > b {
		return a
	}
	return b
}
