package main

import "fmt"

// ---------------------------------------------------------------------------
// Matching tables (DESIGN.md §3.2), written independently of the library's
// graph code.
// ---------------------------------------------------------------------------

// may is exactly C01's sentence: equal names when both sides are named,
// identical type or an implementation of the parameter's interface type, and
// for identical types a subtype that is equal or absent on one side.
func may(src, p Label) bool {
	if src.Name != "" && p.Name != "" && src.Name != p.Name {
		return false
	}
	if src.Type == p.Type {
		return src.Sub == p.Sub || src.Sub == "" || p.Sub == ""
	}
	return implements(src.Type, p.Type)
}

// must is the documented / tested subset of may that obliges the library to
// find a binding (lower bound).
func must(src, p Label) bool {
	if !may(src, p) {
		return false
	}
	if p.Name != "" {
		if src.Name != "" {
			// same name (may guarantees it), identical type, subtype equal
			// or parameter without subtype taking a subtyped value
			if src.Type != p.Type {
				return false
			}
			return src.Sub == p.Sub || p.Sub == ""
		}
		// unnamed source
		if src.Type == p.Type {
			return src.Sub == ""
		}
		return implements(src.Type, p.Type)
	}
	// type-only parameter
	if src.Name != "" {
		return src.Type == p.Type && (p.Sub == "" || p.Sub == src.Sub)
	}
	if src.Type == p.Type {
		return true // may already restricts the subtypes
	}
	return implements(src.Type, p.Type)
}

// typeRel ignores names and subtypes: the most generous "could depend on".
func typeRel(src, p Label) bool {
	return src.Type == p.Type || implements(src.Type, p.Type)
}

// Fix is the least fix-point of derivable labels under a matching table.
type Fix struct {
	Avail    []Label
	ConvOK   []bool
	TargetOK []bool
	AllOK    bool // every target parameter derivable
	AllConvs bool // every converter satisfied
}

func fixpoint(s *Scenario, match func(src, p Label) bool) Fix {
	var f Fix
	f.Avail = append(f.Avail, s.Inputs...)
	f.ConvOK = make([]bool, len(s.Convs))
	has := func(p Label) bool {
		for _, a := range f.Avail {
			if match(a, p) {
				return true
			}
		}
		return false
	}
	for changed := true; changed; {
		changed = false
		for i, c := range s.Convs {
			if f.ConvOK[i] {
				continue
			}
			ok := true
			for _, p := range c.In {
				if !has(p) {
					ok = false
					break
				}
			}
			if ok {
				f.ConvOK[i] = true
				f.Avail = append(f.Avail, c.Out...)
				changed = true
			}
		}
	}
	f.AllOK = true
	for _, p := range s.Target.In {
		ok := has(p)
		f.TargetOK = append(f.TargetOK, ok)
		if !ok {
			f.AllOK = false
		}
	}
	f.AllConvs = true
	for _, ok := range f.ConvOK {
		if !ok {
			f.AllConvs = false
		}
	}
	return f
}

// depCyclic reports whether the converter dependency graph, under the most
// generous notion of dependency (type relation only), has a cycle or a
// self-loop.
func depCyclic(s *Scenario) bool {
	n := len(s.Convs)
	adj := make([][]int, n)
	for i, c := range s.Convs {
		for j, d := range s.Convs {
			dep := false
			for _, p := range c.In {
				for _, o := range d.Out {
					if typeRel(o, p) {
						dep = true
					}
				}
			}
			if dep {
				adj[i] = append(adj[i], j)
			}
		}
	}
	color := make([]int, n)
	var dfs func(int) bool
	dfs = func(u int) bool {
		color[u] = 1
		for _, v := range adj[u] {
			if color[v] == 1 || (color[v] == 0 && dfs(v)) {
				return true
			}
		}
		color[u] = 2
		return false
	}
	for i := 0; i < n; i++ {
		if color[i] == 0 && dfs(i) {
			return true
		}
	}
	return false
}

func maxConvIn(s *Scenario) int {
	m := 0
	for _, c := range s.Convs {
		if len(c.In) > m {
			m = len(c.In)
		}
	}
	return m
}

// hopeless: no label anywhere in the case is of p's type, implements it, or
// is otherwise may-related to it.
func hopeless(s *Scenario, p Label) bool {
	rel := func(l Label) bool { return typeRel(l, p) || may(l, p) }
	for _, l := range s.Inputs {
		if rel(l) {
			return false
		}
	}
	for _, c := range s.Convs {
		for _, l := range c.Out {
			if rel(l) {
				return false
			}
		}
	}
	return true
}

// ---------------------------------------------------------------------------
// The C01 monitor: every argument observed by every generated body is a real,
// label-compatible, causally earlier value.
// ---------------------------------------------------------------------------

// BindingOpts tunes the C01 monitor for a given usage.
type BindingOpts struct {
	// AllowedCalls: input ids must belong to one of these calls (or be shared
	// constants, call -1). nil = do not check call ownership.
	AllowedCalls map[int]bool
	// MinSeq: producers must have executed at or after this event seq, unless
	// their function is run-once (memoised result from an earlier call).
	MinSeq int
	// Via lists the declared inputs of a redefined function through which
	// the caller's values reach the original functions: the redefined
	// function is itself a function whose parameter R may legitimately be
	// bound to a supplied value L (MAY(L,R)); it then hands the value on
	// under R's name (or as a type-only value). A binding L -> P is therefore
	// also accepted when it factors as L -> R -> P for some R in Via.
	Via []Label
}

func mayVia(src, p Label, via []Label) bool {
	if may(src, p) {
		return true
	}
	for _, r := range via {
		if may(src, r) && may(Label{Name: r.Name, Type: src.Type, Sub: r.Sub}, p) {
			return true
		}
	}
	return false
}

// checkBinding returns violation messages for the events.
func checkBinding(w *World, events []*Event, o BindingOpts) []string {
	var out []string
	for _, ev := range events {
		for _, a := range ev.Args {
			if a.ID < 0 || (a.ID == 0 && w.Origin(0) == nil) {
				out = append(out, fmt.Sprintf("f%d exec %d param %v: fabricated/missing value (id=%d)", ev.Func, ev.Exec, a.Param, a.ID))
				continue
			}
			org := w.Origin(a.ID)
			if org == nil {
				out = append(out, fmt.Sprintf("f%d exec %d param %v: unknown id %d", ev.Func, ev.Exec, a.Param, a.ID))
				continue
			}
			if !mayVia(org.Label, a.Param, o.Via) {
				out = append(out, fmt.Sprintf("f%d exec %d param %v: mis-labelled source %v (%s)", ev.Func, ev.Exec, a.Param, org.Label, originStr(org)))
			}
			// type check: the concrete type must be assignable to the parameter type
			if a.Conc < 0 || !(a.Conc == a.Param.Type || implements(a.Conc, a.Param.Type)) {
				out = append(out, fmt.Sprintf("f%d exec %d param %v: concrete type %s not assignable", ev.Func, ev.Exec, a.Param, typeName(a.Conc)))
			}
			switch org.Kind {
			case OInput:
				if o.AllowedCalls != nil && org.Call != -1 && !o.AllowedCalls[org.Call] {
					out = append(out, fmt.Sprintf("f%d exec %d param %v: value #%d belongs to another call (%d)", ev.Func, ev.Exec, a.Param, a.ID, org.Call))
				}
			case OConv:
				if org.Seq >= ev.Seq {
					out = append(out, fmt.Sprintf("f%d exec %d param %v: value #%d produced by a later event", ev.Func, ev.Exec, a.Param, a.ID))
				}
				if org.Seq < o.MinSeq {
					w.mu.Lock()
					once := w.specs[org.Func].Once
					w.mu.Unlock()
					if !once {
						out = append(out, fmt.Sprintf("f%d exec %d param %v: stale value #%d from an earlier call (f%d is not run-once)", ev.Func, ev.Exec, a.Param, a.ID, org.Func))
					}
				}
			}
		}
	}
	return out
}

func originStr(o *Origin) string {
	if o.Kind == OInput {
		return fmt.Sprintf("input %d of call %d", o.Func, o.Call)
	}
	return fmt.Sprintf("output %d of f%d exec %d", o.OutIdx, o.Func, o.Exec)
}

// roots follows provenance backwards to the owning calls of all inputs that
// contributed to id.
func roots(w *World, id int64, seen map[int64]bool, out map[int]bool) {
	if seen[id] {
		return
	}
	seen[id] = true
	o := w.Origin(id)
	if o == nil {
		out[-99] = true
		return
	}
	if o.Kind == OInput {
		out[o.Call] = true
		return
	}
	// the output of a run-once function is shared by every later call by
	// design; for isolation purposes it is a shared constant
	w.mu.Lock()
	once := w.specs[o.Func].Once
	w.mu.Unlock()
	if once {
		out[-1] = true
		return
	}
	for _, f := range o.From {
		roots(w, f, seen, out)
	}
}
