package main

import (
	"fmt"
	"math/rand"
	"os"
	"path/filepath"
	"regexp"
	"runtime"
	"sort"
	"strings"
	"sync"
	"sync/atomic"
	"time"

	"github.com/anishathalye/porcupine"
	am "github.com/hashicorp/go-argmapper"
	"github.com/hashicorp/go-hclog"
)

// ---------------------------------------------------------------------------
// Race-detector reports: collected from the GORACE log_path files of the
// workers, deduplicated by the pair of top frames.
// ---------------------------------------------------------------------------

var raceFrameRe = regexp.MustCompile(`(?m)^  ([^\s].*?)\(`)

func parseRaceLogs(dir string) (blocks int, keys map[string]string) {
	keys = map[string]string{}
	files, _ := filepath.Glob(filepath.Join(dir, "race.w*"))
	for _, f := range files {
		b, err := os.ReadFile(f)
		if err != nil {
			continue
		}
		for _, blk := range strings.Split(string(b), "==================") {
			if !strings.Contains(blk, "WARNING: DATA RACE") {
				continue
			}
			blocks++
			// top frames of the two accesses: first function line after each
			// "... by goroutine" header
			var tops []string
			lines := strings.Split(blk, "\n")
			for i, ln := range lines {
				if (strings.Contains(ln, " by goroutine ") || strings.Contains(ln, " by main goroutine")) && !strings.HasPrefix(strings.TrimSpace(ln), "Goroutine") && i+1 < len(lines) {
					fn := strings.TrimSpace(lines[i+1])
					if j := strings.IndexByte(fn, '('); j > 0 {
						fn = fn[:j]
					}
					tops = append(tops, fn)
				}
			}
			sort.Strings(tops)
			k := strings.Join(tops, " <-> ")
			if _, ok := keys[k]; !ok {
				if len(blk) > 3000 {
					blk = blk[:3000]
				}
				keys[k] = blk
			}
		}
	}
	return
}

// racePost turns race reports into violations (C12: no data races; reports
// inside the run-once memoisation are also C11 refutations).
func racePost(prop string) func(run *RunInfo, a *Agg) {
	return func(run *RunInfo, a *Agg) {
		blocks, keys := parseRaceLogs(run.Dir)
		a.Obs["race_reports"] = int64(blocks)
		a.Obs["race_reports_distinct"] = int64(len(keys))
		for k, blk := range keys {
			// keep the report
			dst := filepath.Join(verifDir(), "replays", prop)
			os.MkdirAll(dst, 0o755)
			p := filepath.Join(dst, fmt.Sprintf("race-%s-seed%d-%x.txt", run.Tier, run.Seed, hashStr(k)&0xffffff))
			os.WriteFile(p, []byte(blk), 0o644)
			props := []string{"C12"}
			if strings.Contains(blk, "callDirect") {
				props = append(props, "C11")
			}
			for _, pr := range props {
				a.Violations = append(a.Violations, Violation{Prop: pr, Key: "race/" + crashKey(k), Msg: "data race reported by the race detector: " + k, Detail: map[string]interface{}{"report": p}})
			}
		}
	}
}

// perturb returns a point hook that yields or sleeps at the library's
// check/call/store points, decided by a hash of an atomic counter (safe for
// concurrent use).
func perturb(seed uint64, intensity int) func(string, *am.Func) {
	var ctr uint64
	return func(p string, f *am.Func) {
		if p == "redefine.copy" {
			// inside Redefine's locked copy of a function: widen that window
			x := atomic.AddUint64(&ctr, 1)
			if ((x^seed)*0x9e3779b97f4a7c15)>>61 < 3 {
				time.Sleep(30 * time.Microsecond)
			} else {
				runtime.Gosched()
			}
			return
		}
		if !strings.HasPrefix(p, "direct.") {
			return
		}
		x := atomic.AddUint64(&ctr, 1)
		h := (x ^ seed) * 0x9e3779b97f4a7c15
		h ^= h >> 29
		switch h % uint64(8) {
		case 0, 1, 2:
			runtime.Gosched()
		case 3:
			if intensity > 0 {
				time.Sleep(time.Duration(20+h%200) * time.Microsecond)
			}
		}
	}
}

// ---------------------------------------------------------------------------
// C11 — run-once functions
// ---------------------------------------------------------------------------

func init() {
	register(&Monitor{
		ID:   "C11",
		Race: true,
		// a use of a run-once function that never returns observes nothing
		CrashProps: []string{"C11", "C06"},
		Cases:      func(t string) int { return tierN(t, 3000, 60000) },
		Rule: "sequential histories (5 of 8 cases): 4-12 operations (Call on varying targets, Convert, Redefine, call of a redefined function) over one world in which 1-3 converters at chain depth 1-4 are run-once (value-returning or failing), needed up to 3 times within a call; " +
			"oracle: each run-once body executes at most once over the history and every value any body ever receives from a run-once function stems from its execution #0; a failing run-once function yields the identical error value on every later need. " +
			"concurrent histories (3 of 8): 4-12 goroutines first-use the same run-once converter simultaneously (GOMAXPROCS 1/2/4/16, yields/sleeps injected at the library's memo check / call / store hook points and inside the body); " +
			"oracle: execution counter <= 1; porcupine checks the recorded history {exec(id) by the body, use(id) by each call} with real-time intervals against a write-once-register model (exec legal only on the empty register, use must observe the stored id); race detector silent. " +
			"one case in 15: two run-once converters shared by concurrent calls whose converter graphs nest them in opposite order (A needs B's output in one kind of call, B needs A's in the other), fresh functions per round, yields/sleeps at the hook points incl. the entry of argument resolution: every call returns successfully, each body ran at most once. " +
			"non-trivial = a run-once function was needed by >= 2 operations",
		Assumptions: []string{"porcupine histories are short (<= 40 operations); a checker timeout is inconclusive", "race freedom is judged only on the interleavings the race detector observed"},
		Run:         runC11,
		Post:        racePost("C11"),
		Floor: func(tier string, a *Agg) string {
			if a.Obs["porcupine_ok"]+a.Obs["porcupine_illegal"] < 100 {
				return "fewer than 100 concurrent histories checked by porcupine"
			}
			return ""
		},
	})
}

// onceScenario: a constructive single-input chain scenario with run-once
// converters; returns the scenario and the extra target specs.
func onceScenario(r *rand.Rand, failP float64) (Scenario, []FuncSpec) {
	for tries := 0; tries < 50; tries++ {
		s, _ := Constructive(r, ChainCfg{MaxTgt: 2, MaxDepth: 1 + r.Intn(4), MultiIn: r.Intn(3) == 0, Distract: 1, BuiltP: 0, ErrP: 0.5, FailP: 0})
		if len(s.Convs) == 0 {
			continue
		}
		n := 0
		for i := range s.Convs {
			if s.Convs[i].InForm == FormBuilt {
				continue
			}
			if r.Intn(2) == 0 || n == 0 {
				s.Convs[i].Once = true
				s.Convs[i].Deliver = DelFunc
				if r.Intn(3) == 0 {
					// the same *Func handed out by a generator on every call
					s.Convs[i].Deliver = DelGen
				}
				n++
				if chance(r, failP) {
					s.Convs[i].HasErr, s.Convs[i].Fail = true, true
				}
			}
			if n >= 3 {
				break
			}
		}
		if n == 0 {
			continue
		}
		fixDelivery(&s, r)
		// extra targets: each needs one or two of the labels converters produce
		var extra []FuncSpec
		var produced []Label
		for _, c := range s.Convs {
			produced = append(produced, c.Out...)
		}
		for k := 0; k < 1+r.Intn(3); k++ {
			var tin []Label
			for j := 0; j < 1+r.Intn(3); j++ {
				p := consumerFor(pick(r, produced), r, false)
				nl := append(append([]Label{}, tin...), p)
				if wellFormedList(nl) {
					tin = nl
				}
			}
			extra = append(extra, FuncSpec{In: tin, InForm: formFor(tin, r, false), OutForm: FormPos, Out: []Label{{Type: r.Intn(nConcrete)}}, HasErr: r.Intn(2) == 0})
		}
		return s, extra
	}
	return Scenario{}, nil
}

func runC11(c *CaseCtx) (res CaseResult) {
	r := caseRand(c.Seed, "C11", c.Idx)
	if c.Idx%15 == 4 {
		return runCrossNestedOnce(c, r)
	}
	if c.Idx%25 == 3 {
		return runC11Shapes(c, r)
	}
	if c.Idx%8 >= 5 {
		return runC11Concurrent(c, r)
	}

	s, extra := onceScenario(r, 0.2)
	if len(s.Convs) == 0 {
		res.Skip = "generator"
		return res
	}
	res.Key = s.Key() + fmt.Sprint(extra)
	in, err := Instantiate(s, r)
	if err != nil {
		res.Skip = "instantiate"
		return res
	}
	targets := []*Built{in.Target}
	for k, sp := range extra {
		b, err := in.W.Build(-10-k, sp, r)
		if err == nil {
			targets = append(targets, b)
		}
	}
	det := func(info string) interface{} {
		return map[string]interface{}{"scenario": s.String(), "info": info}
	}
	nops := 4 + r.Intn(9)
	var redefined []*am.Func
	onceErr := map[int]error{}
	needs := map[int]int{}
	for k := 0; k < nops; k++ {
		n0 := in.W.NumEvents()
		var o Outcome
		switch op := r.Intn(6); {
		case op <= 2:
			t := pick(r, targets)
			o = DoCall(in.W, t.Func, in.AllArgs(k, r))
		case op == 3:
			var tt int
			if len(s.Target.In) > 0 {
				tt = pick(r, s.Target.In).Type
			}
			o = DoConvert(in.W, types[tt], in.AllArgs(k, r))
		case op == 4:
			ropts := in.AllArgs(k, r)
			if r.Intn(2) == 0 {
				// force the plan through the converters (incl. run-once ones)
				ropts = append(ropts, am.FilterInput(inputTypesFilter(&s)))
			}
			o = DoRedefine(in.W, pick(r, targets).Func, ropts)
			if len(o.Events) > 0 {
				res.violate("C09", "executed-during-redefine", "bodies executed during Redefine: "+eventsStr(o.Events), det(""))
			}
			if o.Func != nil && o.Err == nil {
				redefined = append(redefined, o.Func)
			}
		default:
			if len(redefined) == 0 {
				continue
			}
			rf := pick(r, redefined)
			args, _, _ := redefinedArgs(in.W, rf, k, r)
			o = DoCall(in.W, rf, args)
		}
		res.Evals++
		if o.Class == ClsPanic {
			res.violate("C06", "panic/"+crashKey(o.Panic), "operation panicked: "+o.Panic, det(o.Panic))
			continue
		}
		// every value any body received must stem from a real execution: a
		// memo filled by anything but the first execution shows up as a value
		// nobody produced
		for _, msg := range checkBinding(in.W, o.Events, BindingOpts{MinSeq: n0, Via: viaOf(o, redefined)}) {
			res.violate("C01", "binding/"+bindingKind(msg), "run-once history: "+msg, det(eventsStr(o.Events)))
			if bindingKind(msg) == "fabricated" {
				res.violate("C11", "value-from-no-execution", "a body received a value that no execution produced (poisoned run-once memo?): "+msg, det(eventsStr(o.Events)))
			}
		}
		// which run-once functions did this operation need (observed through
		// provenance of any argument, or through their error)?
		used := map[int]bool{}
		for _, e := range o.Events {
			for _, a := range e.Args {
				seen := map[int64]bool{}
				var walk func(id int64)
				walk = func(id int64) {
					if seen[id] {
						return
					}
					seen[id] = true
					if org := in.W.Origin(id); org != nil && org.Kind == OConv {
						if org.Func >= 0 && s.Convs[org.Func].Once {
							used[org.Func] = true
							if org.Exec != 0 {
								res.violate("C11", "later-execution-observed", fmt.Sprintf("a value from execution #%d of run-once converter c%d was injected", org.Exec, org.Func), det(eventsStr(o.Events)))
							}
						}
						for _, f := range org.From {
							walk(f)
						}
					}
				}
				walk(a.ID)
			}
		}
		for i := range used {
			needs[i]++
		}
		if o.Err != nil && in.W.onceErr(o.Err) {
			// identify which once function's error
			for i, cv := range s.Convs {
				if cv.Once && cv.Fail && in.W.Execs(i) >= 1 {
					if prev, ok := onceErr[i]; ok {
						if fe, ok2 := o.Err.(*failErr); ok2 && fe.Func == i && o.Err != prev {
							res.violate("C11", "different-error-value", fmt.Sprintf("run-once converter c%d: a later need observed another error value", i), det(""))
						}
					} else if fe, ok2 := o.Err.(*failErr); ok2 && fe.Func == i {
						onceErr[i] = o.Err
					}
					if fe, ok2 := o.Err.(*failErr); ok2 && fe.Func == i {
						needs[i]++
					}
				}
			}
		}
	}
	for i, cv := range s.Convs {
		if !cv.Once {
			continue
		}
		res.obs("run_once_functions", 1)
		e := in.W.Execs(i)
		res.obs("run_once_executions", int64(e))
		if e > 1 {
			res.violate("C11", "once-reexecuted", fmt.Sprintf("run-once converter c%d executed %d times over a sequential history", i, e), det(""))
		}
		if needs[i] >= 2 {
			res.NonTrivial = true
			res.obs("run_once_needed_repeatedly", 1)
		}
	}
	res.Sample = map[string]interface{}{"scenario": s.String(), "ops": nops}
	return res
}

type regOp struct {
	Exec bool
	ID   int64
}

var onceModel = porcupine.Model{
	Init: func() interface{} { return int64(0) },
	Step: func(state, input, output interface{}) (bool, interface{}) {
		st := state.(int64)
		op := input.(regOp)
		if op.Exec {
			if st != 0 {
				return false, st // a second execution is never legal
			}
			return true, op.ID
		}
		// use: must observe the stored id
		return st != 0 && output.(int64) == st, st
	},
	DescribeOperation: func(input, output interface{}) string {
		op := input.(regOp)
		if op.Exec {
			return fmt.Sprintf("exec -> #%d", op.ID)
		}
		return fmt.Sprintf("use -> #%v", output)
	},
}

func runC11Concurrent(c *CaseCtx, r *rand.Rand) (res CaseResult) {
	// one run-once converter O at depth d of a single-input chain:
	// input T[p0] -> c0 -> ... -> target; O is one of the chain converters or a provider
	depth := 1 + r.Intn(4)
	perm := r.Perm(nConcrete)
	var s Scenario
	oncePos := r.Intn(depth)
	provider := r.Intn(4) == 0
	for i := 0; i < depth; i++ {
		in := []int{perm[i]}
		if i == 0 && provider {
			in = nil
		}
		f := posFn(in, []int{perm[i+1]})
		if r.Intn(2) == 0 {
			f.OutForm = 1 + r.Intn(2)
		}
		if len(in) > 0 && r.Intn(2) == 0 {
			f.InForm = 1 + r.Intn(2)
		}
		f.HasErr = r.Intn(2) == 0
		if i == oncePos {
			f.Once = true
			if r.Intn(5) == 0 {
				f.HasErr, f.Fail = true, true
			}
		}
		s.Convs = append(s.Convs, f)
	}
	if !provider {
		s.Inputs = []Label{{Type: perm[0]}}
	}
	s.Target = FuncSpec{In: []Label{{Type: perm[depth]}}, InForm: r.Intn(3), OutForm: FormPos, Out: []Label{{Type: perm[0]}}}
	if r.Intn(3) == 0 && depth >= 2 {
		// needed twice within a call: the target also wants the once output itself
		s.Target.In = append(s.Target.In, Label{Type: perm[oncePos+1]})
		if !wellFormedList(s.Target.In) {
			s.Target.In = s.Target.In[:1]
		}
	}
	res.Key = "conc " + s.Key()
	in, err := Instantiate(s, r)
	if err != nil {
		res.Skip = "instantiate"
		return res
	}
	procs := []int{1, 2, 4, 16}[r.Intn(4)]
	old := runtime.GOMAXPROCS(procs)
	defer runtime.GOMAXPROCS(old)
	G := 4 + r.Intn(9)
	pseed := r.Uint64()
	casePointHook = perturb(pseed, 1)
	var dctr uint64
	in.W.Delay = func(fi int) {
		if fi == oncePos {
			x := atomic.AddUint64(&dctr, 1)
			if (x^pseed)%3 == 0 {
				time.Sleep(time.Duration(50+(x*7919)%300) * time.Microsecond)
			} else {
				runtime.Gosched()
			}
		}
	}
	type use struct {
		call, ret int64
		cls       string
		err       error
		res       am.Result
		g         int
	}
	uses := make([]use, G)
	var wg sync.WaitGroup
	start := make(chan struct{})
	for g := 0; g < G; g++ {
		wg.Add(1)
		go func(g int) {
			defer wg.Done()
			args := make([]am.Arg, 0, 4)
			for i, l := range s.Inputs {
				args = append(args, InputArg(l, in.W.FreshInput(g, i, l)))
			}
			args = append(args, in.ConvArgs...)
			<-start
			t0 := in.W.Now()
			o := DoCall(nil, in.Target.Func, args)
			t1 := in.W.Now()
			uses[g] = use{call: t0, ret: t1, cls: o.Class, err: o.Err, res: o.Res, g: g}
			if o.Class == ClsPanic {
				uses[g].cls = "panic:" + o.Panic
			}
		}(g)
	}
	close(start)
	wg.Wait()
	casePointHook = nil
	res.Evals += G
	det := func(info string) interface{} {
		return map[string]interface{}{"scenario": s.String(), "goroutines": G, "gomaxprocs": procs, "info": info}
	}
	execs := in.W.Execs(oncePos)
	res.obs("concurrent_rounds", 1)
	res.obs("concurrent_calls", int64(G))
	res.max("max_once_executions_in_a_round", int64(execs))
	res.obs(fmt.Sprintf("gomaxprocs.%d", procs), 1)
	if execs > 1 {
		res.violate("C11", "once-reexecuted-concurrently", fmt.Sprintf("run-once converter executed %d times under %d concurrent first uses", execs, G), det(""))
	}
	// history for porcupine
	var ops []porcupine.Operation
	evs := in.W.EventsFrom(0)
	var onceIDs = map[int64]bool{}
	var firstErr error
	for _, e := range evs {
		if e.Func == oncePos {
			var id int64 = -int64(e.Exec) - 1
			if len(e.Outs) > 0 {
				id = e.Outs[0]
			}
			if e.Err != nil {
				if firstErr == nil {
					firstErr = e.Err
				}
				id = int64(1<<40) + int64(e.Exec) // error executions get a synthetic id
			}
			onceIDs[id] = true
			ops = append(ops, porcupine.Operation{ClientId: G, Input: regOp{Exec: true, ID: id}, Call: e.EnterNs, Output: id, Return: e.ExitNs})
		}
	}
	// what each call observed: follow the provenance of its result back to O's output
	for g := 0; g < G; g++ {
		u := uses[g]
		if strings.HasPrefix(u.cls, "panic:") {
			res.violate("C06", "panic/concurrent-"+crashKey(u.cls), "concurrent call panicked: "+u.cls, det(""))
			continue
		}
		var observed int64
		if u.err != nil {
			fe, ok := u.err.(*failErr)
			if !ok || fe.Func != oncePos {
				if in.W.IsBodyError(u.err) {
					continue
				}
				res.violate("C12", "concurrent-outcome-differs", "a concurrent call failed although a sequential one succeeds: "+firstLine(errStr(u.err)), det(""))
				continue
			}
			observed = int64(1<<40) + int64(fe.Exec)
			if u.err != firstErr && firstErr != nil {
				// a different error value object: different execution
				observed = int64(1<<40) + int64(fe.Exec)
			}
		} else {
			id, _ := idOfIface(u.res.Out(0))
			seen := map[int64]bool{}
			var found []int64
			var walk func(id int64)
			walk = func(id int64) {
				if seen[id] {
					return
				}
				seen[id] = true
				org := in.W.Origin(id)
				if org == nil {
					return
				}
				if org.Kind == OConv && org.Func == oncePos {
					found = append(found, id)
				}
				for _, f := range org.From {
					walk(f)
				}
			}
			walk(id)
			if len(found) == 0 {
				res.violate("C11", "once-output-missing", "a successful call's result does not descend from the run-once converter's output", det(""))
				continue
			}
			observed = found[0]
			for _, f := range found[1:] {
				if f != observed {
					res.violate("C11", "two-outputs-in-one-call", "one call observed outputs of two executions of the run-once converter", det(""))
				}
			}
		}
		ops = append(ops, porcupine.Operation{ClientId: g, Input: regOp{}, Call: u.call, Output: observed, Return: u.ret})
	}
	result, _ := porcupine.CheckOperationsVerbose(onceModel, ops, 10*time.Second)
	switch result {
	case porcupine.Ok:
		res.obs("porcupine_ok", 1)
	case porcupine.Illegal:
		res.obs("porcupine_illegal", 1)
		var hs []string
		for _, op := range ops {
			hs = append(hs, fmt.Sprintf("[%d,%d] c%d %s", op.Call, op.Return, op.ClientId, onceModel.DescribeOperation(op.Input, op.Output)))
		}
		res.violate("C11", "history-not-linearizable", "the recorded history of executions and uses is not linearizable against a write-once register", det(strings.Join(hs, " ; ")))
	default:
		res.Inconclusive = "porcupine-timeout"
	}
	res.NonTrivial = G >= 2
	res.obs("history_operations", int64(len(ops)))
	res.Sample = map[string]interface{}{"scenario": s.String(), "goroutines": G, "gomaxprocs": procs, "once_executions": execs, "porcupine": fmt.Sprint(result), "history_ops": len(ops)}
	return res
}

// ---------------------------------------------------------------------------
// C12 — sharing functions, converters and options between goroutines
// ---------------------------------------------------------------------------

func init() {
	register(&Monitor{
		ID:   "C12",
		Race: true,
		// a concurrent call that never returns has no outcome at all
		CrashProps: []string{"C12", "C06"},
		Cases:      func(t string) int { return tierN(t, 1200, 20000) },
		Rule: "per case one shared world: one target Func with default options, k converter Funcs (ConverterFunc, raw Converter, ConverterGen), one shared option slice holding every option constructor " +
			"(Named, NamedSubtype with mixed-case names, Typed, TypedSubtype, Converter, ConverterFunc, ConverterGen, FilterInput/Output, Logger, FuncName, FuncOnce), a shared redefined function, shared Input()/Output() value sets and Value.Arg(); " +
			"4-16 goroutines x 4-8 rounds each do Call / Convert / Redefine / call-of-shared-redefined with the shared options plus their own per-call input ids (GOMAXPROCS 2/4/16, yields injected at hook points); scenarios from the outcome-stable classes, built functions excluded. " +
			"Oracle: no race-detector report; each call's outcome class equals the sequential reference; cross-call isolation (provenance of every target execution's arguments reaches one call's ids or shared constants only); C01 monitor over all events. " +
			"One case in 11 is the cross-nested run-once family (see C11): concurrent calls that need two shared run-once converters in opposite nesting order must all return successfully. " +
			"non-trivial = >= 4 goroutines shared >= 1 converter and >= 1 option value",
		Assumptions: []string{"the monitor's own log and provenance table are mutex protected and updated inside the bodies; it was validated to be report-free on the repaired tree", "races are judged on observed interleavings only"},
		Run:         runC12,
		Post:        racePost("C12"),
	})
}

func runC12(c *CaseCtx) (res CaseResult) {
	r := caseRand(c.Seed, "C12", c.Idx)
	if c.Idx%11 == 7 {
		return runCrossNestedOnce(c, r)
	}
	if c.Idx%35 == 3 {
		return runC12FailingRedefined(c, r)
	}
	if c.Idx%35 == 24 {
		return runC12FreshFuncFirstUse(c, r)
	}
	if c.Idx%35 == 31 {
		return runC12ManyInFlight(c, r)
	}
	if c.Idx%35 == 10 {
		return runC12SharedFailingOptions(c, r)
	}
	if c.Idx%35 == 12 {
		return runC12FewCallOptions(c, r)
	}
	if c.Idx%35 == 17 {
		return runC12ConvertTypes(c, r)
	}
	s, fam := stableScenario(r)
	noBuilt := func(f *FuncSpec) {
		if f.InForm == FormBuilt {
			f.InForm, f.OutForm = FormStruct, FormStruct
		}
	}
	for i := range s.Convs {
		noBuilt(&s.Convs[i])
	}
	noBuilt(&s.Target)
	cf := factsOf(&s)
	if inScopeC05(&s, &cf) == "" && fam != "exact" {
		res.Skip = "not-stable"
		return res
	}
	res.Key = s.Key()
	// split the inputs into shared constants and per-call values
	shared := make([]bool, len(s.Inputs))
	for i := range shared {
		shared[i] = r.Intn(3) == 0
	}
	w := NewWorld()
	in := &Inst{W: w, S: s}
	// The shared option slice is built twice from the same underlying values
	// and function objects: refOpts serves the sequential reference runs,
	// sharedOpts is not applied by anybody before the goroutines start, so
	// that first applications of every option value overlap.
	sharedIDs := map[int]int64{}
	for i, l := range s.Inputs {
		if shared[i] {
			sharedIDs[i] = w.FreshInput(-1, i, l)
		}
	}
	u1 := w.FreshInput(-1, 100, Label{Name: "unused", Type: 5, Sub: "zz"})
	u2 := w.FreshInput(-1, 101, Label{Type: 5, Sub: "zq"})
	withOnce := r.Intn(2) == 0
	defShared := -1
	if r.Intn(2) == 0 {
		for i := range s.Inputs {
			if shared[i] {
				defShared = i
				break
			}
		}
	}
	sharedInputOpt := func(i int, rr *rand.Rand) am.Arg {
		l := s.Inputs[i]
		n := l.Name
		if n != "" {
			n = mixCase(n, rr)
		}
		return am.NamedSubtype(n, mk(l.Type, sharedIDs[i]).Interface(), l.Sub)
	}
	// target with default options (a shared constant input may live there);
	// World.Build hands them over in a slice with spare capacity: appending
	// per-call options to the stored defaults in place would make concurrent
	// calls overwrite each other's options
	defOpts := []am.Arg{am.FuncName("shared-target")}
	if defShared >= 0 {
		defOpts = append(defOpts, sharedInputOpt(defShared, r))
	}
	// 0-7 further (harmless, repeated) default options: how much spare
	// capacity the library's own copy of the defaults ends up with depends
	// on their number
	for k := (c.Idx / 3) % 8; k > 0; k-- {
		defOpts = append(defOpts, am.FuncName("shared-target"))
	}
	res.max("max_default_options_of_the_shared_target", int64(len(defOpts)))
	t, err := w.Build(-1, s.Target, r, defOpts...)
	if err != nil {
		res.Skip = "instantiate"
		return res
	}
	in.Target = t
	seenT := map[interface{}]bool{t.Type: true}
	for i, cs := range s.Convs {
		b, err := w.Build(i, cs, r)
		if err != nil || seenT[b.Type] {
			res.Skip = "instantiate"
			return res
		}
		seenT[b.Type] = true
		in.Convs = append(in.Convs, b)
	}
	oseed := r.Int63()
	mkOpts := func() []am.Arg {
		rr := rand.New(&splitmix{s: uint64(oseed)})
		var o []am.Arg
		for i := range s.Inputs {
			if shared[i] {
				o = append(o, sharedInputOpt(i, rr))
			}
		}
		o = append(o,
			am.NamedSubtype("UnUsed", T5{ID: u1}, "zz"),
			am.TypedSubtype(T5{ID: u2}, "zq"),
			am.Logger(hclog.New(&hclog.LoggerOptions{Level: hclog.Error})),
			am.FuncName("shared"),
			am.FilterInput(func(am.Value) bool { return true }),
			am.FilterOutput(func(am.Value) bool { return true }),
			am.ConverterGen(func(am.Value) (*am.Func, error) { return nil, nil }),
		)
		if withOnce {
			o = append(o, am.FuncOnce())
		}
		// all raw converters travel in ONE Converter(...) option value
		var raws []interface{}
		for i, cs := range s.Convs {
			b := in.Convs[i]
			switch {
			case cs.Deliver == DelRaw && b.Raw != nil && !cs.Once:
				raws = append(raws, b.Raw)
			case cs.Deliver == DelGen:
				f := b.Func
				o = append(o, am.ConverterGen(func(v am.Value) (*am.Func, error) { return f, nil }))
			default:
				o = append(o, am.ConverterFunc(b.Func))
			}
		}
		if len(raws) > 0 {
			o = append(o, am.Converter(raws...))
		}
		rr.Shuffle(len(o), func(i, j int) { o[i], o[j] = o[j], o[i] })
		return o
	}
	refOpts := mkOpts()
	sharedOpts := mkOpts()
	ownArgs := func(call int) []am.Arg {
		var a []am.Arg
		for i, l := range s.Inputs {
			if !shared[i] {
				a = append(a, InputArg(l, w.FreshInput(call, i, l)))
			}
		}
		return a
	}
	fullWith := func(opts []am.Arg, call int) []am.Arg {
		return append(append([]am.Arg{}, opts...), ownArgs(call)...)
	}
	full := func(call int) []am.Arg { return fullWith(sharedOpts, call) }
	// Sequential references. In half of the cases they are taken AFTER the
	// concurrent phase (the outcome classes compared are singletons for these
	// scenarios, so the moment does not matter): only then do the goroutines
	// perform the very first use of the shared run-once converters.
	refsAfter := r.Intn(2) == 0
	var convT int
	if len(s.Target.In) > 0 {
		convT = s.Target.In[0].Type
	}
	var refCall, refConv Outcome
	takeRefs := func() {
		refCall = DoCall(w, t.Func, fullWith(refOpts, 900001))
		refConv = DoConvert(w, types[convT], fullWith(refOpts, 900002))
	}
	if !refsAfter {
		takeRefs()
	}
	// Convert's outcome is only compared where it is a singleton: the bare
	// type is underivable, or derivable with the converter set in C05 scope
	cs := s
	cs.Target = FuncSpec{In: []Label{{Type: convT}}, InForm: FormPos, OutForm: FormPos}
	ccf := factsOf(&cs)
	convStable := !ccf.fMay.AllOK || inScopeC05(&cs, &ccf) != ""
	// the inputs given to this Redefine are baked into the shared redefined
	// function, hence shared constants (owner -1)
	refRedef := DoRedefine(w, t.Func, fullWith(refOpts, -1))
	var sharedRF *am.Func
	if refRedef.Func != nil && refRedef.Err == nil {
		sharedRF = refRedef.Func
	}
	var rfDesc sync.Map
	rfArgs := func(call int, lr *rand.Rand) []am.Arg {
		var a []am.Arg
		var desc []string
		defer func() { rfDesc.Store(call, strings.Join(desc, " ")) }()
		for i, v := range sharedRF.Input().Values() {
			ti := typeIndex(v.Type)
			if ti < 0 {
				continue
			}
			conc := concreteFor(ti, lr)
			vv := v
			if isIface(ti) {
				vv.Name = ""
			}
			id := w.FreshInput(call, 500+i, Label{Name: vv.Name, Type: conc, Sub: v.Subtype})
			vv.Value = mk(conc, id)
			desc = append(desc, fmt.Sprintf("%s:%s/%s=%s#%d", v.Name, typeName(ti), v.Subtype, typeName(conc), id))
			a = append(a, vv.Arg())
		}
		return a
	}
	refRF := Outcome{Class: "none"}
	takeRefRF := func() {
		if sharedRF != nil {
			refRF = DoCall(w, sharedRF, rfArgs(900004, r))
		}
	}
	if !refsAfter {
		takeRefRF()
	}
	if refCall.Class == ClsPanic || refConv.Class == ClsPanic || refRedef.Class == ClsPanic {
		res.violate("C06", "panic/sequential-reference", "sequential reference operation panicked", map[string]interface{}{"scenario": s.String()})
		return res
	}
	procs := []int{2, 4, 16}[r.Intn(3)]
	old := runtime.GOMAXPROCS(procs)
	defer runtime.GOMAXPROCS(old)
	G := 4 + r.Intn(13)
	rounds := 4 + r.Intn(5)
	casePointHook = perturb(r.Uint64(), 0)
	var wg sync.WaitGroup
	var mu sync.Mutex
	start := make(chan struct{})
	seeds := make([]uint64, G)
	for g := range seeds {
		seeds[g] = r.Uint64()
	}
	type callRec struct {
		call int
		op   string
		o    Outcome
	}
	var recs []callRec
	for g := 0; g < G; g++ {
		wg.Add(1)
		go func(g int) {
			defer wg.Done()
			lr := rand.New(&splitmix{s: seeds[g]})
			<-start
			for k := 0; k < rounds; k++ {
				call := 1000*(g+1) + k
				var rec callRec
				rec.call = call
				switch op := lr.Intn(6); {
				case op <= 2:
					rec.op = "call"
					rec.o = DoCall(nil, t.Func, full(call))
				case op == 3:
					rec.op = "convert"
					rec.o = DoConvert(nil, types[convT], full(call))
				case op == 4 || sharedRF == nil:
					rec.op = "redefine"
					rec.o = DoRedefine(nil, t.Func, full(call))
					// also exercise the shared value sets / Value.Arg()
					for _, v := range t.Func.Input().Values() {
						_ = v.String()
					}
					_ = t.Func.Output().Values()
					_ = t.Func.Name()
				default:
					rec.op = "call-redefined"
					rec.o = DoCall(nil, sharedRF, rfArgs(call, lr))
				}
				mu.Lock()
				recs = append(recs, rec)
				mu.Unlock()
			}
		}(g)
	}
	close(start)
	wg.Wait()
	casePointHook = nil
	det := func(info string) interface{} {
		return map[string]interface{}{"scenario": s.String(), "goroutines": G, "gomaxprocs": procs, "info": info, "references_taken_after": refsAfter}
	}
	if refsAfter {
		takeRefs()
		takeRefRF()
		if refCall.Class == ClsPanic || refConv.Class == ClsPanic {
			res.violate("C06", "panic/sequential-reference", "sequential reference operation panicked", det(""))
			return res
		}
		res.obs("cases_with_concurrent_first_use", 1)
	}
	res.Evals += len(recs)
	res.obs("concurrent_operations", int64(len(recs)))
	res.obs(fmt.Sprintf("gomaxprocs.%d", procs), 1)
	var seqRF map[string]bool
	for _, rec := range recs {
		res.obs("op."+rec.op, 1)
		cls := rec.o.Class
		if cls != ClsPanic {
			cls = classify(w, rec.o.Err)
		}
		if cls == ClsPanic {
			res.violate("C06", "panic/concurrent-"+crashKey(rec.o.Panic), "concurrent "+rec.op+" panicked: "+rec.o.Panic, det(""))
			continue
		}
		var ref string
		switch rec.op {
		case "call":
			ref = refCall.Class
		case "convert":
			if convStable {
				ref = refConv.Class
			}
		case "call-redefined":
			if refRF.Class == ClsOK {
				ref = ClsOK
			}
			if refsAfter && anyOnce(&s) {
				// The references (and the sequential samples below) are taken
				// AFTER the concurrent phase, when every shared run-once
				// converter has memoized; the concurrent calls ran while they
				// had not. A memoized run-once converter hands out its result
				// without its arguments being resolved, so an inner call that
				// ends "cannot be satisfied" in the fresh state succeeds in the
				// memoized one: no sequential execution in the state the
				// concurrent call saw is available to compare with (F13).
				ref = ""
				res.obs("redefined_calls_not_compared_memo_state_differs", 1)
			}
		}
		// (the outcome of Redefine itself depends on map order even on these
		// scenarios, so no sequential singleton exists to compare with)
		if ref != "" && cls != ref && rec.op == "call-redefined" {
			// Nothing guarantees that a call of the redefined function has ONE
			// possible outcome (Redefine drops subtypes, a declared input may
			// replace a baked-in value of the same name; which derivation is
			// found then follows map order). The concurrent outcome is only
			// wrong if no sequential execution of the same call returns it.
			if seqRF == nil {
				seqRF = map[string]bool{}
				for k := 0; k < 400; k++ {
					o := DoCall(w, sharedRF, rfArgs(800000+k, r))
					c := o.Class
					if c != ClsPanic {
						c = classify(w, o.Err)
					}
					seqRF[c] = true
				}
				res.obs("redefined_call_outcome_sets_sampled_sequentially", 1)
			}
			if seqRF[cls] {
				res.obs("concurrent_redefined_outcomes_reproduced_sequentially", 1)
				ref = ""
			}
		}
		if ref != "" && cls != ref {
			info := firstLine(errStr(rec.o.Err))
			if d, ok := rfDesc.Load(rec.call); ok && rec.op == "call-redefined" {
				info += " | supplied: " + d.(string) + " | error: " + errStr(rec.o.Err)
			}
			res.violate("C12", "concurrent-outcome-differs", fmt.Sprintf("concurrent %s ended %s, the sequential reference %s", rec.op, cls, ref), det(info))
		}
		// isolation of the returned value
		if rec.op == "call" && rec.o.Err == nil && rec.o.Res.Len() > 0 {
			if id, _ := idOfIface(rec.o.Res.Out(0)); id > 0 {
				owners := map[int]bool{}
				roots(w, id, map[int64]bool{}, owners)
				for oc := range owners {
					if oc != rec.call && oc != -1 {
						res.violate("C12", "cross-call-leak", fmt.Sprintf("the result of call %d descends from a value owned by call %d", rec.call, oc), det(""))
					}
				}
				res.obs("results_isolation_checked", 1)
			}
		}
	}
	// every target/converter execution: arguments from one call only, real, label-compatible
	evs := w.EventsFrom(0)
	var via []Label
	if sharedRF != nil {
		via = declaredInputs(sharedRF)
	}
	for _, msg := range checkBinding(w, evs, BindingOpts{Via: via}) {
		res.violate("C01", "binding/"+bindingKind(msg), "concurrent workload: "+msg, det(""))
	}
	for _, e := range evs {
		owners := map[int]bool{}
		for _, a := range e.Args {
			roots(w, a.ID, map[int64]bool{}, owners)
		}
		delete(owners, -1)
		if len(owners) > 1 {
			res.violate("C12", "cross-call-mix", fmt.Sprintf("execution %s received values owned by different calls %v", e.String(), owners), det(""))
		}
		res.obs("executions_isolation_checked", 1)
	}
	for i, cv := range s.Convs {
		if cv.Once && cv.Deliver != DelRaw {
			res.obs("shared_run_once_converters", 1)
			if n := w.Execs(i); n > 1 {
				res.violate("C11", "once-reexecuted-concurrently", fmt.Sprintf("shared run-once converter c%d executed %d times", i, n), det(""))
			}
		}
	}
	res.NonTrivial = G >= 4 && len(s.Convs) >= 1
	res.obs("family."+fam, 1)
	res.Sample = map[string]interface{}{"scenario": s.String(), "goroutines": G, "rounds": rounds, "gomaxprocs": procs, "shared_options": len(sharedOpts)}
	return res
}

// viaOf: the relabelling allowance for operations that may have gone through
// a redefined function (all declared inputs of all redefined functions of the
// history; a superset is sound).
func viaOf(o Outcome, redefined []*am.Func) []Label {
	var via []Label
	for _, rf := range redefined {
		via = append(via, declaredInputs(rf)...)
	}
	return via
}

// runCrossNestedOnce: two run-once converters A:(S1,Y)->AO and B:(S2,Z)->BO
// shared by two kinds of concurrent calls whose converter graphs nest them in
// OPPOSITE order. Kind 1 wants AO and is given Z: A needs Y, which P makes
// from BO, which B makes from the supplied Z. Kind 2 wants BO and is given Y:
// B needs Z, which Q makes from AO, which A makes from the supplied Y. Every
// call is satisfiable on its own and a sequential execution succeeds, so each
// concurrent call must return, successfully, and A and B run at most once.
// Fresh functions per round; yields/sleeps at the library's hook points
// (including the entry of argument resolution) widen the windows.
func runCrossNestedOnce(c *CaseCtx, r *rand.Rand) (res CaseResult) {
	t := distinctTypes(r, 6)
	S1, S2, Y, Z, AO, BO := t[0], t[1], t[2], t[3], t[4], t[5]
	res.Key = fmt.Sprintf("cross-nested-once %v", t)
	res.NonTrivial = true
	res.obs("family.cross-nested-once", 1)
	procs := []int{2, 4, 16}[r.Intn(3)]
	old := runtime.GOMAXPROCS(procs)
	defer runtime.GOMAXPROCS(old)
	seed := r.Uint64()
	var ctr uint64
	casePointHook = func(p string, f *am.Func) {
		if p != "reach.enter" && !strings.HasPrefix(p, "direct.") {
			return
		}
		x := atomic.AddUint64(&ctr, 1)
		h := (x ^ seed) * 0x9e3779b97f4a7c15
		h ^= h >> 29
		switch h % 8 {
		case 0, 1, 2:
			runtime.Gosched()
		case 3, 4:
			time.Sleep(time.Duration(10+h%100) * time.Microsecond)
		}
	}
	defer func() { casePointHook = nil }()
	rounds := tierReps(c.Tier, 6, 12)
	for round := 0; round < rounds; round++ {
		w := NewWorld()
		once := func(s FuncSpec) FuncSpec { s.Once = true; return s }
		specs := []FuncSpec{once(posFn([]int{S1, Y}, []int{AO})), once(posFn([]int{S2, Z}, []int{BO})), posFn([]int{BO}, []int{Y}), posFn([]int{AO}, []int{Z})}
		var fs []*Built
		for i, sp := range specs {
			b, err := w.Build(i, sp, r)
			if err != nil {
				res.Skip = "instantiate"
				return res
			}
			fs = append(fs, b)
		}
		t1, err1 := w.Build(-1, posFn([]int{AO}, nil), r)
		t2, err2 := w.Build(-2, posFn([]int{BO}, nil), r)
		if err1 != nil || err2 != nil {
			res.Skip = "instantiate"
			return res
		}
		G := 2 + r.Intn(5)
		start := make(chan struct{})
		var wg sync.WaitGroup
		outs := make([]Outcome, G)
		for g := 0; g < G; g++ {
			wg.Add(1)
			call := 100*round + g
			typed := func(ty int) am.Arg {
				return InputArg(Label{Type: ty}, w.FreshInput(call, ty, Label{Type: ty}))
			}
			var tgt *Built
			var args []am.Arg
			if g%2 == 0 {
				tgt = t1
				args = []am.Arg{typed(S1), typed(S2), typed(Z), am.ConverterFunc(fs[0].Func), am.ConverterFunc(fs[1].Func), am.ConverterFunc(fs[2].Func)}
			} else {
				tgt = t2
				args = []am.Arg{typed(S1), typed(S2), typed(Y), am.ConverterFunc(fs[0].Func), am.ConverterFunc(fs[1].Func), am.ConverterFunc(fs[3].Func)}
			}
			go func(g int, tgt *Built, args []am.Arg) {
				defer wg.Done()
				<-start
				outs[g] = DoCall(nil, tgt.Func, args)
			}(g, tgt, args)
		}
		close(start)
		wg.Wait()
		res.Evals += G
		res.obs("concurrent_operations", int64(G))
		res.obs("cross_nested_rounds", 1)
		det := map[string]interface{}{"types": fmt.Sprint(t), "goroutines": G, "gomaxprocs": procs, "round": round}
		for g, o := range outs {
			switch o.Class {
			case ClsPanic:
				res.violate("C06", "panic/concurrent-"+crashKey(o.Panic), "concurrent call panicked: "+o.Panic, det)
			case ClsOK:
			default:
				res.violate("C12", "concurrent-outcome-differs", fmt.Sprintf("concurrent call %d (kind %d) ended %s (%s); a sequential execution of the same call succeeds", g, 1+g%2, o.Class, firstLine(errStr(o.Err))), det)
			}
		}
		for i := 0; i < 2; i++ {
			if n := w.Execs(i); n > 1 {
				res.violate("C11", "once-reexecuted-concurrently", fmt.Sprintf("shared run-once converter c%d executed %d times", i, n), det)
			}
		}
		for _, msg := range checkBinding(w, w.EventsFrom(0), BindingOpts{}) {
			res.violate("C01", "binding/"+bindingKind(msg), "concurrent workload: "+msg, det)
		}
	}
	res.Sample = map[string]interface{}{"family": "cross-nested-once", "types": fmt.Sprint(t)}
	return res
}
