package main

import (
	"fmt"
	"math/rand"
	"reflect"

	am "github.com/hashicorp/go-argmapper"
)

// ---------------------------------------------------------------------------
// C03 — exact matches win
// ---------------------------------------------------------------------------

var concreteCfg = GenCfg{
	NTypes: 6, Ifaces: false, Names: []string{"a", "b", "c"}, Subs: []string{"x", "y"},
	MaxIn: 3, MaxConv: 4, MaxConvIn: 2, MaxOut: 2, MaxTgt: 3,
	PosRepeat: true, ErrP: 0.3, OnceP: 0.1, BuiltP: 0.15, RawP: 0.15, GenP: 0.1,
}

// genExact builds a target over concrete types, an exactly matching input for
// every parameter, distractor inputs and distractor converters.
func genExact(r *rand.Rand, withConvs bool) (s Scenario, exact []int) {
	cfg := concreteCfg
	s.Target = cfg.fn(r, 1+r.Intn(3), r.Intn(2), true)
	keys := map[string]int{}
	for _, p := range s.Target.In {
		l := p // identical label; type-only parameters get a type-only value
		k := inputKey(l)
		if j, ok := keys[k]; ok {
			exact = append(exact, j)
			continue
		}
		keys[k] = len(s.Inputs)
		exact = append(exact, len(s.Inputs))
		s.Inputs = append(s.Inputs, l)
	}
	// distractor inputs with other keys
	for i := r.Intn(4); i > 0; i-- {
		l := cfg.label(r, true, true, false)
		if r.Intn(2) == 0 && len(s.Target.In) > 0 {
			// near miss of some parameter: same name other subtype, or same
			// type other name
			p := pick(r, s.Target.In)
			switch r.Intn(3) {
			case 0:
				l = Label{Name: p.Name, Type: r.Intn(cfg.NTypes), Sub: pick(r, []string{"x", "y", "z"})}
			case 1:
				l = Label{Name: pick(r, []string{"a", "b", "c", "d"}), Type: p.Type, Sub: p.Sub}
			default:
				l = Label{Type: p.Type, Sub: pick(r, []string{"", "x", "y", "z"})}
			}
		}
		k := inputKey(l)
		if _, ok := keys[k]; ok {
			continue
		}
		keys[k] = len(s.Inputs)
		s.Inputs = append(s.Inputs, l)
	}
	if !withConvs {
		return
	}
	for i := r.Intn(6); i > 0; i-- {
		p := pick(r, s.Target.In)
		var c FuncSpec
		switch r.Intn(6) {
		case 0, 1: // general distractor
			c = cfg.fn(r, r.Intn(3), 1+r.Intn(2), false)
		case 2: // same-named chain: (n:T') -> exact label, with an input n:T'/y available
			if p.Name == "" {
				c = cfg.fn(r, r.Intn(2), 1, false)
				break
			}
			t2 := (p.Type + 1 + r.Intn(cfg.NTypes-1)) % cfg.NTypes
			c = FuncSpec{In: []Label{{Name: p.Name, Type: t2}}, Out: []Label{p}, InForm: 1 + r.Intn(2), OutForm: 1 + r.Intn(2)}
			extra := Label{Name: p.Name, Type: t2, Sub: pick(r, []string{"y", "z"})}
			if _, ok := keys[inputKey(extra)]; !ok {
				keys[inputKey(extra)] = len(s.Inputs)
				s.Inputs = append(s.Inputs, extra)
			}
		case 3: // provider of the exact label
			c = FuncSpec{Out: []Label{p}, InForm: FormPos, OutForm: 1 + r.Intn(2)}
			if p.Name == "" && p.Sub == "" && r.Intn(2) == 0 {
				c.OutForm = FormPos
			}
		case 4: // converter from another supplied value to the exact label
			src := pick(r, s.Inputs)
			c = FuncSpec{In: []Label{src}, Out: []Label{p}, InForm: 1 + r.Intn(2), OutForm: 1 + r.Intn(2)}
		default: // bidirectional pair between the parameter's type and another
			t2 := (p.Type + 1 + r.Intn(cfg.NTypes-1)) % cfg.NTypes
			c = posFn([]int{p.Type}, []int{t2})
			s.Convs = append(s.Convs, posFn([]int{t2}, []int{p.Type}))
		}
		if r.Intn(3) == 0 {
			c.HasErr, c.Fail = true, true // must never run, so may as well fail
		}
		if c.InForm != FormBuilt && r.Intn(8) == 0 {
			c.Once = true
		}
		s.Convs = append(s.Convs, c)
	}
	r.Shuffle(len(s.Convs), func(i, j int) { s.Convs[i], s.Convs[j] = s.Convs[j], s.Convs[i] })
	dedupeTypes(&s)
	fixDelivery(&s, r)
	return
}

func init() {
	register(&Monitor{
		ID:    "C03",
		Cases: func(t string) int { return tierN(t, 10000, 300000) },
		Rule: "G-exact: random target over concrete types in every form; one supplied value with exactly each parameter's key; near-miss distractor inputs; 0-6 distractor converters " +
			"(general, same-named chains a:T'->a:T with a:T'/y supplied, providers of the exact label, converters from other inputs, bidirectional pairs; some failing, some run-once); options shuffled; R repetitions. " +
			"Oracle: success, zero converter events, each named parameter received the id supplied under its own key, each type-only parameter an id supplied as input with exactly its type. " +
			"half of the successful repetitions call the SAME Func again with fresh values; one case in eight is a history on a target Func with a subtyped default value zz:T/dflt, alternating calls with and without one more value zz:T/lk (every argument of a call must be one of that call's own inputs); one case in four supplies the zero value of a type as an exact input; one in four passes the type-only inputs through ONE Typed(nil, a, nil, b) option; one in five hands all inputs over as ValueSet.Args() of a set filled with FromSignature; " +
			"non-trivial = at least one distractor converter whose output is MAY-compatible with some parameter",
		Assumptions: []string{"interface-typed parameters are excluded (no supplied value can have exactly an interface type)", "6 concrete types, names {a,b,c,d}, subtypes {x,y,z}"},
		Run: func(c *CaseCtx) CaseResult {
			var res CaseResult
			r := caseRand(c.Seed, "C03", c.Idx)
			if c.Idx%8 == 3 {
				return runC03DefaultsHistory(c, r)
			}
			s, exact := genExact(r, true)
			if r.Intn(6) == 0 {
				// same model over unnamed / mutually assignable / func / chan types
				s = exoticize(s, r)
				res.obs("cases_over_exotic_types", 1)
			}
			if c.Idx%9 == 2 {
				// value names starting with a non-ASCII letter, capitalised on
				// the struct side
				s = unicodeNames(s)
				res.obs("cases_with_non_ascii_names", 1)
			}
			res.Key = s.Key()
			for _, cv := range s.Convs {
				for _, o := range cv.Out {
					for _, p := range s.Target.In {
						if may(o, p) {
							res.NonTrivial = true
						}
					}
				}
			}
			reps := tierReps(c.Tier, 5, 10)
			zero := -1
			if r.Intn(4) == 0 {
				// one exactly matching input is the zero value of its type
				zero = exact[r.Intn(len(exact))]
				res.obs("cases_with_a_zero_valued_exact_input", 1)
			}
			var checkExact func(in *Inst, o *Outcome, again bool)
			checkExact = func(in *Inst, o *Outcome, again bool) {
				det := map[string]interface{}{"scenario": s.String(), "class": o.Class, "err": firstLine(errStr(o.Err)), "events": eventsStr(o.Events), "second_call_on_same_func": again, "zero_valued_input": zero}
				if o.Class != ClsOK {
					res.violate("C03", "exact-not-ok", "every parameter has an exactly matching input but the call did not succeed: "+o.Class, det)
					return
				}
				if !again && r.Intn(2) == 0 {
					defer func() {
						// the same Func again with fresh values
						n0 := in.W.NumEvents()
						cf := factsNow(in)
						o2 := DoCall(in.W, in.Target.Func, in.AllArgs(1, r))
						res.Evals++
						checkCall(in, &o2, &cf, 1, n0, &res)
						checkExact(in, &o2, true)
						res.obs("second_calls_on_the_same_func", 1)
					}()
				}
				if n := convEvents(o.Events); n > 0 {
					res.violate("C03", "converter-executed", fmt.Sprintf("%d converter execution(s) although every parameter has an exact input", n), det)
				}
				for _, e := range o.Events {
					if e.Func != -1 {
						continue
					}
					for i, a := range e.Args {
						org := in.W.Origin(a.ID)
						if org == nil {
							continue // C01 reports it
						}
						if a.Param.Name != "" {
							if a.ID != in.InputIDs[exact[i]] {
								res.violate("C03", "named-not-exact", fmt.Sprintf("parameter %v received #%d (%s) instead of its exact input #%d", a.Param, a.ID, originStr(org), in.InputIDs[exact[i]]), det)
							}
						} else if org.Kind != OInput || org.Label.Type != a.Param.Type {
							res.violate("C03", "typed-not-input", fmt.Sprintf("type-only parameter %v received #%d (%s, label %v), not a supplied value of exactly its type", a.Param, a.ID, originStr(org), org.Label), det)
						} else if org.Call == 70 {
							// the value supplied to the EARLIER wrapper call (call id 70), not this call's exact input
							res.violate("C03", "typed-not-this-calls-input", fmt.Sprintf("type-only parameter %v received #%d, the value an earlier call through a wrapper over the function's own sets was given, instead of this call's exact input", a.Param, a.ID), det)
						}
						res.obs("target_arguments_checked", 1)
					}
				}
			}
			grouped := r.Intn(4) == 0
			if grouped {
				res.obs("cases_with_grouped_typed_inputs", 1)
			}
			viaSet := !grouped && r.Intn(4) == 0
			if viaSet {
				res.obs("cases_with_inputs_through_ValueSet.Args", 1)
			}
			memoFirst := r.Intn(3) == 0
			outs, _ := runScenarioX(c, s, r, reps, &res, func(in *Inst) {
				in.ZeroInput1 = zero + 1
				in.GroupTyped = grouped
				in.ViaSet = viaSet
				if c.Idx%5 == 2 {
					// history: a caller's wrapper built over the target's OWN
					// input and output sets (BuildFunc(f.Input(), f.Output(),
					// cb)) has served a call with other values; what that
					// left behind must not shadow the exact inputs of the
					// call under test
					tf := in.Target.Func
					if px, err := am.BuildFunc(tf.Input(), tf.Output(), func(vin, vout *am.ValueSet) error {
						rr := tf.Call(vin.Args()...)
						if rr.Err() != nil {
							return rr.Err()
						}
						return vout.FromResult(rr)
					}); err == nil {
						if o := DoCall(in.W, px, in.AllArgs(70, rand.New(&splitmix{s: uint64(c.Idx) + 77}))); o.Class == ClsOK {
							res.obs("exact_calls_after_a_wrapper_call_over_the_targets_own_sets", 1)
						}
						res.Evals++
					}
				}
				if !memoFirst {
					return
				}
				// history: every shared run-once distractor converter has
				// already executed (called directly, as a target, by an
				// earlier call); what it memoized must not shadow the exact
				// inputs of the call under test
				for i, cv := range in.S.Convs {
					if cv.Once && cv.Deliver != DelRaw {
						DoCall(in.W, in.Convs[i].Func, in.AllArgs(50+i, r))
						res.Evals++
						if in.W.Execs(i) > 0 {
							res.obs("run_once_distractors_memoized_before_the_exact_call", 1)
						}
					}
				}
			}, func(in *Inst, o *Outcome) { checkExact(in, o, false) })
			res.obs("distractor_converters", int64(len(s.Convs)))
			res.Sample = sampleOf(s, outs)
			return res
		},
	})
}

// ---------------------------------------------------------------------------
// C04 — failing converter aborts the call, error verbatim
// ---------------------------------------------------------------------------

func init() {
	register(&Monitor{
		ID:    "C04",
		Cases: func(t string) int { return tierN(t, 10000, 200000) },
		Rule: "constructive chains/DAGs (depth 1-6, multi-input, struct/pointer/built/positional results, run-once) with each converter independently failing (p=0.3) and the target failing (p=0.15); " +
			"oracle: Err() is identical (==) to the first failing body's error value, that event is the last of the call, the target did not run; no error => nothing failed; target error => Err() is it and Len() = non-error arity; " +
			"a second call on the same objects re-checks run-once failures (cached error returned verbatim, body not re-run); in one case in five the failing bodies return an error VALUE of type *ErrArgumentUnsatisfied (taken from an inner unsatisfiable call), which must come back verbatim all the same; one case in 25 lets 3-8 goroutines first-use one shared run-once converter whose first execution succeeds and any further one would fail (a failing execution on behalf of a call obliges that call to return its error); in one case in six they return a non-nil error whose dynamic value is a zero value (stateless sentinel struct, integer code 0, typed nil pointer, empty string type). non-trivial = a failing converter actually executed",
		Assumptions: []string{"error identity is compared with == on the interface value (pointer identity of the generated error)"},
		Run: func(c *CaseCtx) CaseResult {
			var res CaseResult
			r := caseRand(c.Seed, "C04", c.Idx)
			if c.Idx%25 == 6 {
				return runC04ConcurrentOnce(c, r)
			}
			multi := r.Intn(2) == 0
			s, depth := Constructive(r, ChainCfg{MaxTgt: 3, MaxDepth: 1 + r.Intn(6), MultiIn: multi, Cycles: !multi && r.Intn(3) == 0,
				Distract: 2, FailP: 0.3, OnceP: 0.15, BuiltP: 0.2, Subtypes: r.Intn(2) == 0, Ifaces: r.Intn(2) == 0, ErrP: 0.5, DistractIn: 1})
			if s.Target.HasErr && r.Intn(100) < 30 {
				s.Target.Fail = true
			}
			res.Key = s.Key()
			reps := tierReps(c.Tier, 3, 6)
			unsatErrs := r.Intn(5) == 0
			if unsatErrs {
				res.obs("cases_with_unsatisfied_typed_error_values", 1)
			}
			zeroErrs := 0
			if !unsatErrs && r.Intn(5) == 0 {
				// non-nil errors whose dynamic value is a zero value
				zeroErrs = 1 + r.Intn(6)
				res.obs("cases_with_zero_valued_error_values", 1)
			}
			if !unsatErrs && (c.Idx/5)%7 == 3 {
				// error values of a type that is not comparable (a list of
				// messages): index-determined, no PRNG draw
				zeroErrs = 7
				res.obs("cases_with_uncomparable_error_values", 1)
			}
			// one case in four: converters that declare an error and do not
			// fail by spec may fail on their SECOND execution (the second
			// call on the same objects), run-once ones excluded
			failLater := map[int]bool{}
			if r.Intn(4) == 0 {
				for i, cv := range s.Convs {
					if cv.HasErr && !cv.Fail && !cv.Once && r.Intn(2) == 0 {
						failLater[i] = true
					}
				}
				if len(failLater) > 0 {
					res.obs("cases_with_converters_failing_on_a_later_execution", 1)
				}
			}
			outs, _ := runScenarioX(c, s, r, reps, &res, func(in *Inst) {
				in.W.UnsatErrors = unsatErrs
				in.W.ZeroErrors = zeroErrs
				if len(failLater) > 0 {
					in.W.FailOn = func(fi, exec int, specFail bool) bool { return specFail || (exec >= 1 && failLater[fi]) }
				}
			}, func(in *Inst, o *Outcome) {
				det := map[string]interface{}{"scenario": s.String(), "class": o.Class, "err": firstLine(errStr(o.Err)), "events": eventsStr(o.Events), "unsat_typed_errors": unsatErrs}
				for _, e := range o.Events {
					if e.Err != nil && e.Func >= 0 {
						res.NonTrivial = true
						res.obs("failing_converter_executions", 1)
						res.max("max_failure_position_in_log", int64(e.Seq))
					}
					if e.Err != nil && e.Func == -1 {
						res.obs("failing_target_executions", 1)
						if !sameErr(o.Err, e.Err) {
							res.violate("C04", "target-error-not-reported", "the target returned an error but Err() is not that value", det)
						}
						if want := goResultArity(s.Target); o.Class != ClsPanic && o.Res.Len() != want {
							res.violate("C17", "len-with-error", fmt.Sprintf("target returned an error; Len() = %d, want %d", o.Res.Len(), want), det)
						}
					}
				}
				// second call on the same objects: run-once functions must not re-run
				before := map[int]int{}
				for i := range in.Convs {
					before[i] = in.W.Execs(i)
				}
				n0 := in.W.NumEvents()
				cf := factsNow(in)
				o2 := DoCall(in.W, in.Target.Func, in.AllArgs(1, r))
				res.Evals++
				checkCall(in, &o2, &cf, 1, n0, &res)
				for i, cv := range in.Convs {
					if cv.Spec.Once && before[i] >= 1 && in.W.Execs(i) != before[i] {
						res.violate("C11", "once-reexecuted", fmt.Sprintf("run-once converter c%d executed again on a second call", i), det)
					}
				}
				// a function derived by Redefine whose plan goes through the
				// converters: a converter failing INSIDE it makes its call
				// return exactly that error, like any other call
				if r.Intn(3) == 0 {
					flt := inputTypesFilter(&s)
					if c.Idx%3 == 1 {
						// also admit the interface types the inputs implement:
						// the derived function may then declare inputs of
						// interface type
						flt = inputTypesFilterIfaces(&s)
					}
					if ro := DoRedefine(in.W, in.Target.Func, append(in.AllArgs(2, r), am.FilterInput(flt))); ro.Func != nil && ro.Err == nil {
						for _, v := range ro.Func.Input().Values() {
							if v.Type.Kind() == reflect.Interface {
								res.obs("redefined_functions_with_interface_typed_inputs", 1)
								break
							}
						}
						rargs, _, _ := redefinedArgs(in.W, ro.Func, 3, r)
						o3 := DoCall(in.W, ro.Func, rargs)
						res.Evals++
						var ff *Event
						for _, e := range o3.Events {
							if e.Err != nil {
								ff = e
								break
							}
						}
						d3 := map[string]interface{}{"scenario": s.String(), "class": o3.Class, "err": firstLine(errStr(o3.Err)), "events": eventsStr(o3.Events)}
						if ff != nil {
							if !sameErr(o3.Err, ff.Err) {
								res.violate("C04", "error-not-verbatim", fmt.Sprintf("f%d failed inside a redefined function; its call returned %q", ff.Func, firstLine(errStr(o3.Err))), d3)
							}
							if last := o3.Events[len(o3.Events)-1]; last != ff {
								res.violate("C04", "continued-after-error", fmt.Sprintf("f%d failed inside a redefined function but f%d was executed afterwards", ff.Func, last.Func), d3)
							}
							res.obs("failing_executions_inside_redefined_functions", 1)
						}
					}
				}
				if o.Class == ClsConvErr && o2.Class == ClsConvErr && !sameErr(o.Err, o2.Err) {
					// a different converter may legitimately fail first the second time; only
					// a run-once failure is pinned
					if in.W.onceErr(o.Err) && in.W.onceErr(o2.Err) {
						res.obs("second_call_other_once_error", 1)
					}
				}
			})
			res.max("max_chain_depth", int64(depth))
			res.Sample = sampleOf(s, outs)
			return res
		},
		Floor: func(tier string, a *Agg) string {
			if a.Obs["failing_converter_executions"] < 200 {
				return "fewer than 200 failing converter executions observed"
			}
			return ""
		},
	})
}

// goResultArity is the number of non-error Go results of a generated function.
func goResultArity(f FuncSpec) int {
	switch f.OutForm {
	case FormPos:
		return len(f.Out)
	default:
		return 1
	}
}

func boolInt(b bool) int {
	if b {
		return 1
	}
	return 0
}

// ---------------------------------------------------------------------------
// C05 — chaining complete and outcome-stable in scope
// ---------------------------------------------------------------------------

// inScopeC05 classifies a scenario: "a" (single-input converters), "b"
// (acyclic, all converters satisfiable), or "".
func inScopeC05(s *Scenario, cf *callFacts) string {
	if !cf.fMust.AllOK {
		return ""
	}
	if maxConvIn(s) <= 1 {
		return "a"
	}
	if !depCyclic(s) && cf.fMust.AllConvs {
		return "b"
	}
	return ""
}

func init() {
	register(&Monitor{
		ID:    "C05",
		Cases: func(t string) int { return tierN(t, 8000, 120000) },
		Rule: "constructive generators (chains depth 1-6, DAGs with fan-in, rings/bidirectional pairs of single-input converters) + G-general filtered by the scope classifier " +
			"(a: every converter <= 1 input; b: dependency graph under the type-only relation acyclic and every converter MUST-satisfiable); every target parameter MUST-derivable; " +
			"oracle: every repetition succeeds or returns the error value of a converter that failed; without failing converters all R repetitions have the same class. " +
			"non-trivial = in scope and at least one converter executed; evidence reports distinct execution traces per case (tie-breaks actually seen)",
		Assumptions: []string{"derivable = inside the least fix-point under the MUST table (the documented matching rules)", "R repetitions sample Go's randomized map order; they do not enumerate it"},
		Run: func(c *CaseCtx) CaseResult {
			var res CaseResult
			r := caseRand(c.Seed, "C05", c.Idx)
			if c.Idx%50 == 13 {
				return runTwinInterfaces(c, r, false)
			}
			if c.Idx%43 == 9 {
				return runC05AllGenerated(c, r)
			}
			if c.Idx%43 == 31 {
				return runC05Retagged(c, r)
			}
			var s Scenario
			fam := ""
			switch x := r.Intn(100); {
			case x < 25:
				s = Layered(r, r.Intn(2) == 0, 0)
				fam = "layered"
			case x < 30:
				s = Layered(r, r.Intn(2) == 0, 0.2)
				fam = "layered-failing"
			case x < 45:
				s, _ = Constructive(r, ChainCfg{MaxTgt: 3, MaxDepth: 6, Distract: 2, BuiltP: 0.15, OnceP: 0.1, Subtypes: true, Ifaces: true, ErrP: 0.3, DistractIn: 2})
				fam = "chain"
			case x < 55:
				s, _ = Constructive(r, ChainCfg{MaxTgt: 3, MaxDepth: 4, MultiIn: true, Distract: 2, BuiltP: 0.15, OnceP: 0.1, Subtypes: true, Ifaces: true, ErrP: 0.3, DistractIn: 2})
				fam = "dag"
			case x < 80:
				s, _ = Constructive(r, ChainCfg{MaxTgt: 2, MaxDepth: 5, Cycles: true, Distract: 2, BuiltP: 0.1, Subtypes: r.Intn(2) == 0, Ifaces: r.Intn(2) == 0, ErrP: 0.3, DistractIn: 2})
				fam = "cycle"
			case x < 90:
				s, _ = Constructive(r, ChainCfg{MaxTgt: 2, MaxDepth: 4, MultiIn: r.Intn(2) == 0, Distract: 1, FailP: 0.25, BuiltP: 0.1, Subtypes: true, Ifaces: true, ErrP: 0.3})
				fam = "failing"
			case x < 95:
				g := defaultCfg
				if r.Intn(2) == 0 {
					g.MaxConvIn = 1
				}
				s = g.Scenario(r)
				fam = "general"
			case x < 98:
				s = sameNameUnnamed(r)
				fam = "same-name-unnamed-types"
			default:
				s = manyInterfaces(r)
				fam = "many-interfaces"
			}
			if (fam == "chain" || fam == "dag" || fam == "cycle" || fam == "layered") && len(s.Convs) >= 2 && r.Intn(4) == 0 {
				// one link of the derivation is manufactured by a ConverterGen
				// generator that reacts to a value the other converters introduce
				i := r.Intn(len(s.Convs))
				if s.Convs[i].InForm != FormBuilt && !s.Convs[i].Once {
					s.Convs[i].Deliver = DelGen
					if j := r.Intn(len(s.Convs)); j != i && len(s.Convs) >= 3 && s.Convs[j].InForm != FormBuilt && !s.Convs[j].Once {
						// two generated links (their generators may travel in one option)
						s.Convs[j].Deliver = DelGen
					}
					fixDelivery(&s, r)
					res.obs("cases_with_a_generated_link", 1)
				}
			}
			if fam != "same-name-unnamed-types" && r.Intn(8) == 0 {
				// same model over unnamed / mutually assignable / func / chan types
				s = exoticize(s, r)
			}
			if usesExotic(s) {
				res.obs("cases_over_exotic_types", 1)
			}
			if c.Idx%11 == 7 {
				// free-form subtypes (key=value, words, punctuation, "%2C")
				s = oddSubs(s)
				res.obs("cases_with_free_form_subtypes", 1)
			}
			res.Key = s.Key()
			cf := factsOf(&s)
			scope := inScopeC05(&s, &cf)
			if scope == "" {
				res.Skip = "out-of-scope"
				return res
			}
			anyFail := false
			for _, cv := range s.Convs {
				if cv.Fail {
					anyFail = true
				}
			}
			reps := tierReps(c.Tier, 5, 30)
			outs, _ := runScenario(c, s, r, reps, &res, func(in *Inst, o *Outcome) {
				det := map[string]interface{}{"scenario": s.String(), "scope": scope, "class": o.Class, "err": firstLine(errStr(o.Err)), "panic": o.Panic, "events": eventsStr(o.Events)}
				switch o.Class {
				case ClsOK:
				case ClsConvErr:
					if !anyFail {
						res.violate("C05", "phantom-failure", "converter-error class without a failing converter", det)
					}
				default:
					res.violate("C05", "incomplete/"+o.Class, fmt.Sprintf("scope (%s): every parameter is derivable but the call ended with %s: %s", scope, o.Class, firstLine(errStr(o.Err))+o.Panic), det)
				}
				if convEvents(o.Events) > 0 {
					res.NonTrivial = true
				}
				if o.Class == ClsPanic || r.Intn(3) != 0 {
					return
				}
				// the same call again on the same objects, after an unrelated
				// use wrote into the target's own input value set
				if !touchInputSet(in.W, in.Target.Func, 40, r) {
					return
				}
				n0 := in.W.NumEvents()
				cfNow := factsNow(in)
				o2 := DoCall(in.W, in.Target.Func, in.AllArgs(1, r))
				res.Evals++
				checkCall(in, &o2, &cfNow, 1, n0, &res)
				res.obs("repeated_calls_after_writing_the_input_value_set", 1)
				det2 := map[string]interface{}{"scenario": s.String(), "scope": scope, "first": o.Class, "again": o2.Class, "err": firstLine(errStr(o2.Err)), "panic": o2.Panic, "events": eventsStr(o2.Events)}
				if o2.Class != ClsOK && !(o2.Class == ClsConvErr && anyFail) {
					res.violate("C05", "incomplete/"+o2.Class, fmt.Sprintf("scope (%s): the same call on the same objects ended with %s after the target's input value set was written to", scope, o2.Class), det2)
				} else if !anyFail && o2.Class != o.Class {
					res.violate("C05", "unstable", fmt.Sprintf("outcome class changed on the same objects: %s vs %s", o.Class, o2.Class), det2)
				}
			})
			if !anyFail && len(outs) > 0 {
				for _, o := range outs[1:] {
					if o.Class != outs[0].Class {
						res.violate("C05", "unstable", fmt.Sprintf("outcome class changed between repetitions: %s vs %s", outs[0].Class, o.Class), map[string]interface{}{"scenario": s.String(), "scope": scope})
						break
					}
				}
			}
			res.obs("in_scope."+scope, 1)
			res.obs("family."+fam, 1)
			ds := distinctSigs(outs)
			res.max("distinct_traces_per_case", int64(ds))
			if ds > 1 {
				res.obs("cases_with_several_tiebreaks_observed", 1)
			}
			res.Sample = sampleOf(s, outs)
			return res
		},
		Floor: func(tier string, a *Agg) string {
			if a.Obs["in_scope.a"] < 300 || a.Obs["in_scope.b"] < 300 {
				return "fewer than 300 in-scope cases of one of the two scopes"
			}
			return ""
		},
	})
}

// ---------------------------------------------------------------------------
// C07 — name affinity
// ---------------------------------------------------------------------------

func init() {
	names := []string{"a", "b", "c", "d", "e"}
	register(&Monitor{
		ID:    "C07",
		Cases: func(t string) int { return tierN(t, 6000, 150000) },
		Rule: "G-affinity: all ordered concrete type pairs (T,U), names from a pool of 5; mode A: one type-only converter T->U, target parameter n:U, inputs n:T plus 1-4 other named T values (optionally a typed T); " +
			"oracle A: success, >= 1 converter event, every converter event's argument is the input named n. Mode B: additionally a converter taking n:T explicitly with the same output label; " +
			"oracle B: the explicit-name converter ran, the type-only one did not, the target's argument comes from the explicit one. All converter forms, typed or n-named output, with/without error, shuffled order, unrelated distractors; R repetitions. " +
			"Mode C (1 case in 5): 2-3 named target parameters n_i:U all produced through ONE type-only converter T->U, each with its own same-named input n_i:T among other named T values; oracle: parameter n_i receives the output of an execution whose argument was the input named n_i. " +
			"Mode D (1 in 5): the type-only converter has a second type-only input W that must itself be derived from T by another converter; oracle: the T argument of the main converter is still the input named n (which T feeds the nested conversion is not prescribed). " +
			"Mode H: one type-only converter with several named outputs n_i:U that are all parameters of the target; parameter n_i comes from the execution fed with the input named n_i. Mode G: a chain of two type-only converters T->M->U, each with a supplied second input; the T value converted at the bottom of the chain is still the input named n. Mode F: modes C and E combined (several named parameters through one type-only converter whose second input is supplied). Mode E: as D but the second input W is supplied directly (named 'flag', named like the parameter, or type-only), so the cheapest path may enter the converter through that argument. " +
			"non-trivial = >= 2 competing named inputs (A, C, D, E) / both converters present (B)",
		Assumptions: []string{"both competing converters declare the same output label (the property compares how they take their input)"},
		Run: func(c *CaseCtx) CaseResult {
			var res CaseResult
			r := caseRand(c.Seed, "C07", c.Idx)
			names := names
			if c.Idx%9 == 4 {
				// names that are DISTINCT after lower-casing although Unicode
				// case folding identifies them in pairs (s/ſ, σ/ς, µ/μ)
				names = []string{"s", "ſ", "σ", "ς", "µ"}
				res.obs("cases_with_fold_equal_names", 1)
			}
			if c.Idx%5 >= 3 {
				return runC07Multi(c, r, names)
			}
			T := r.Intn(nConcrete)
			U := (T + 1 + r.Intn(nConcrete-1)) % nConcrete
			perm := r.Perm(len(names))
			n := names[perm[0]]
			k := 1 + r.Intn(4)
			var s Scenario
			nIn := Label{Name: n, Type: T}
			subOnN := r.Intn(4) == 0
			if subOnN {
				// the same-named input carries a subtype; it is still the one
				// whose name equals the parameter's name
				nIn.Sub = "k"
			}
			s.Inputs = append(s.Inputs, nIn)
			for j := 0; j < k; j++ {
				s.Inputs = append(s.Inputs, Label{Name: names[perm[1+j]], Type: T})
			}
			if r.Intn(3) == 0 {
				s.Inputs = append(s.Inputs, Label{Type: T})
			}
			// unrelated distractor inputs / converters over other types
			others := []int{}
			for t := 0; t < nConcrete; t++ {
				if t != T && t != U {
					others = append(others, t)
				}
			}
			if r.Intn(2) == 0 {
				s.Inputs = append(s.Inputs, Label{Name: names[perm[1]] + "z", Type: pick(r, others)})
			}
			r.Shuffle(len(s.Inputs), func(a, b int) { s.Inputs[a], s.Inputs[b] = s.Inputs[b], s.Inputs[a] })
			mode := r.Intn(2)
			outL := Label{Type: U}
			if r.Intn(2) == 0 {
				outL = Label{Name: n, Type: U}
			}
			form := func(ls []Label) int { return formFor(ls, r, false) }
			convT := FuncSpec{In: []Label{{Type: T}}, Out: []Label{outL}, HasErr: r.Intn(2) == 0}
			if r.Intn(6) == 0 {
				convT.InForm, convT.OutForm, convT.HasErr = FormBuilt, FormBuilt, true
			} else {
				convT.InForm, convT.OutForm = r.Intn(3), form(convT.Out)
			}
			if mode == 1 && c.Idx%5 == 1 {
				// the type-only rival is a PROVIDER: a converter without
				// inputs (its route to the parameter is the shortest one a
				// type-only converter can have)
				convT.In = nil
				if convT.InForm != FormBuilt {
					convT.InForm = FormPos
				}
				res.obs("competitions_against_a_provider", 1)
			}
			s.Convs = append(s.Convs, convT)
			typeOnlyIdx, nameIdx := 0, -1
			if mode == 1 {
				convN := FuncSpec{In: []Label{{Name: n, Type: T}}, Out: []Label{outL}, HasErr: r.Intn(2) == 0}
				if subOnN {
					convN.In[0].Sub = "k"
				}
				// the explicit-name converter may be wide: further named
				// inputs (all supplied) do not make it less "the converter
				// that uses the name"
				for w := r.Intn(3) * r.Intn(5); w > 0; w-- {
					extra := Label{Name: fmt.Sprintf("x%d", w), Type: pick(r, others)}
					convN.In = append(convN.In, extra)
					s.Inputs = append(s.Inputs, extra)
				}
				if r.Intn(6) == 0 {
					convN.InForm, convN.OutForm, convN.HasErr = FormBuilt, FormBuilt, true
				} else {
					convN.InForm, convN.OutForm = 1+r.Intn(2), form(convN.Out)
				}
				if !subOnN && r.Intn(4) == 0 {
					// the name-using converter is manufactured by a generator
					// when it is shown the value NAMED n (of type T)
					convN.Deliver, convN.GenTrig, convN.GenName = DelGen, T, n
					res.obs("competitions_with_a_generated_name_using_converter", 1)
				}
				if r.Intn(2) == 0 {
					s.Convs = append(s.Convs, convN)
					nameIdx = 1
				} else {
					s.Convs = []FuncSpec{convN, convT}
					nameIdx, typeOnlyIdx = 0, 1
				}
			}
			for i := r.Intn(3); i > 0; i-- {
				a, b := pick(r, others), pick(r, others)
				if a != b {
					s.Convs = append(s.Convs, posFn([]int{a}, []int{b}))
				}
			}
			dedupeTypes(&s)
			s.Target = FuncSpec{In: []Label{{Name: n, Type: U}}, InForm: 1 + r.Intn(2)}
			if r.Intn(6) == 0 {
				s.Target.InForm, s.Target.OutForm, s.Target.HasErr = FormBuilt, FormBuilt, true
			}
			// mode B, one case in four: the type-only converter is a shared
			// run-once Func that an EARLIER call (offering it alone) has
			// already executed; the converter that uses the name must still
			// be the one that serves this call
			onceHistory := mode == 1 && s.Convs[typeOnlyIdx].InForm != FormBuilt && r.Intn(4) == 0
			if onceHistory {
				s.Convs[typeOnlyIdx].Once, s.Convs[typeOnlyIdx].Deliver = true, DelFunc
				res.obs("competitions_after_the_type_only_converter_was_memoized", 1)
			}
			res.Key = fmt.Sprintf("mode%d %s", mode, s.Key())
			res.NonTrivial = true
			reps := tierReps(c.Tier, 5, 20)
			mixIn := r.Intn(2) == 0
			prep := func(in *Inst) {
				if mixIn {
					// the caller spells the names of its values in any casing
					in.MixCase = r
				}
				if !onceHistory {
					return
				}
				DoCall(in.W, in.Target.Func, append(in.InputArgs(7), in.ConvArgs[typeOnlyIdx]))
				res.Evals++
			}
			outs, _ := runScenarioX(c, s, r, reps, &res, prep, func(in *Inst, o *Outcome) {
				det := map[string]interface{}{"scenario": s.String(), "mode": mode, "class": o.Class, "err": firstLine(errStr(o.Err)), "events": eventsStr(o.Events), "type_only_converter_memoized_by_an_earlier_call": onceHistory}
				if o.Class != ClsOK {
					res.violate("C07", "not-ok", "affinity scenario did not succeed: "+o.Class, det)
					return
				}
				if mode == 0 {
					nconv := 0
					for _, e := range o.Events {
						if e.Func != typeOnlyIdx {
							continue
						}
						nconv++
						org := in.W.Origin(e.Args[0].ID)
						if org == nil || org.Kind != OInput || org.Label.Name != n {
							lbl := "?"
							if org != nil {
								lbl = org.Label.String()
							}
							res.violate("C07", "wrong-input-converted", fmt.Sprintf("the converter was fed %s instead of the input named %q", lbl, n), det)
						}
						res.obs("converter_arguments_checked", 1)
					}
					if nconv == 0 {
						res.violate("C07", "no-conversion", "the named parameter can only come from the conversion but the converter did not run", det)
					}
				} else {
					ranName, ranType := 0, 0
					for _, e := range o.Events {
						if e.Func == nameIdx {
							ranName++
						}
						if e.Func == typeOnlyIdx {
							ranType++
						}
						if e.Func == -1 {
							org := in.W.Origin(e.Args[0].ID)
							if org == nil || org.Kind != OConv || org.Func != nameIdx {
								res.violate("C07", "wrong-converter-output", "the target's argument was not produced by the converter that uses the name", det)
							}
						}
					}
					if ranName == 0 || ranType > 0 {
						res.violate("C07", "wrong-converter", fmt.Sprintf("explicit-name converter ran %d times, type-only converter ran %d times", ranName, ranType), det)
					}
					res.obs("competitions_decided", 1)
				}
			})
			res.obs(fmt.Sprintf("mode%d_cases", mode), 1)
			res.Sample = sampleOf(s, outs)
			return res
		},
	})
}

// ---------------------------------------------------------------------------
// C13 — the unsatisfied-argument error is accurate
// ---------------------------------------------------------------------------

func init() {
	register(&Monitor{
		ID:    "C13",
		Cases: func(t string) int { return tierN(t, 8000, 150000) },
		Rule: "G-general / constructive scenarios with one target parameter forced hopeless (a type no label in the case is related to) next to satisfiable, exactly-matched and underivable-but-not-hopeless siblings; " +
			"oracle: error is *ErrArgumentUnsatisfied; Args contains every hopeless parameter, only declared parameters of the target, none MUST-derivable; Inputs equals the supplied values as a multiset of (name,type,subtype); " +
			"Converters contains every *Func given through ConverterFunc and a Func of the same Go type for each raw Converter; Error() mentions type (and name) of every missing argument. non-trivial = the target has >= 2 parameters or the case has converters",
		Assumptions: []string{"hopeless = no supplied value and no converter output has the parameter's type, implements it or is MAY-related to it"},
		Run:         runC13,
	})
}

// runC07Multi: name affinity when several named parameters share one
// type-only converter (mode C) and when the converter has a second input that
// is itself derived from the same source type (mode D).
func runC07Multi(c *CaseCtx, r *rand.Rand, names []string) (res CaseResult) {
	perm3 := r.Perm(nConcrete)
	T, U, W := perm3[0], perm3[1], perm3[2]
	perm := r.Perm(len(names))
	mode := 2 + r.Intn(6)
	var s Scenario
	var wanted []string
	if mode == 7 {
		// mode H: ONE type-only converter with SEVERAL named outputs n_i:U,
		// two or three of them parameters of the target, one supplied n_i:T
		// per name: every execution yields all outputs, but parameter n_i
		// must come from the execution that was fed the input named n_i
		np := 2 + r.Intn(2)
		var outs []Label
		for i := 0; i < np; i++ {
			wanted = append(wanted, names[perm[i]])
			outs = append(outs, Label{Name: names[perm[i]], Type: U})
		}
		for i := 0; i < np+r.Intn(2); i++ {
			s.Inputs = append(s.Inputs, Label{Name: names[perm[i]], Type: T})
		}
		r.Shuffle(len(outs), func(a, b int) { outs[a], outs[b] = outs[b], outs[a] })
		conv := FuncSpec{In: []Label{{Type: T}}, Out: outs, InForm: r.Intn(3), OutForm: 1 + r.Intn(2), HasErr: r.Intn(2) == 0}
		s.Convs = []FuncSpec{conv}
		var tin []Label
		for _, n := range wanted {
			tin = append(tin, Label{Name: n, Type: U})
		}
		r.Shuffle(len(tin), func(a, b int) { tin[a], tin[b] = tin[b], tin[a] })
		s.Target = FuncSpec{In: tin, InForm: 1 + r.Intn(2)}
	} else if mode == 6 {
		// mode G: a CHAIN of two type-only converters T -> M -> U, each with
		// a second input (the supplied flag) through which the cheapest path
		// enters it: the T value converted at the bottom of the chain must
		// still be the input named like the parameter
		M := perm3[3]
		n := names[perm[0]]
		wanted = []string{n}
		s.Inputs = append(s.Inputs, Label{Name: n, Type: T})
		for j := 0; j < 1+r.Intn(3); j++ {
			s.Inputs = append(s.Inputs, Label{Name: names[perm[1+j]], Type: T})
		}
		second := Label{Type: W}
		if r.Intn(3) != 0 {
			second.Name = "flag"
		}
		s.Inputs = append(s.Inputs, second)
		in1 := []Label{{Type: T}, second}
		in2 := []Label{{Type: M}, second}
		if r.Intn(2) == 0 {
			in1[0], in1[1] = in1[1], in1[0]
		}
		if r.Intn(2) == 0 {
			in2[0], in2[1] = in2[1], in2[0]
		}
		conv1 := FuncSpec{In: in1, Out: []Label{{Type: M}}, InForm: formFor(in1, r, false), OutForm: r.Intn(3), HasErr: r.Intn(2) == 0}
		conv2 := FuncSpec{In: in2, Out: []Label{{Type: U}}, InForm: formFor(in2, r, false), OutForm: r.Intn(3), HasErr: r.Intn(2) == 0}
		s.Convs = []FuncSpec{conv1, conv2}
		if r.Intn(2) == 0 {
			s.Convs = []FuncSpec{conv2, conv1}
		}
		s.Target = FuncSpec{In: []Label{{Name: n, Type: U}}, InForm: 1 + r.Intn(2)}
	} else if mode == 5 {
		// mode F = C + E: two or three named parameters through ONE type-only
		// converter whose second input is supplied directly
		np := 2 + r.Intn(2)
		for i := 0; i < np; i++ {
			wanted = append(wanted, names[perm[i]])
		}
		for i := 0; i < np+r.Intn(2); i++ {
			s.Inputs = append(s.Inputs, Label{Name: names[perm[i]], Type: T})
		}
		second := Label{Type: W}
		if r.Intn(2) == 0 {
			second.Name = "flag"
		}
		s.Inputs = append(s.Inputs, second)
		in2 := []Label{{Type: T}, second}
		if r.Intn(2) == 0 {
			in2[0], in2[1] = in2[1], in2[0]
		}
		conv := FuncSpec{In: in2, Out: []Label{{Type: U}}, InForm: formFor(in2, r, false), OutForm: r.Intn(3), HasErr: r.Intn(2) == 0}
		s.Convs = []FuncSpec{conv}
		var tin []Label
		for _, n := range wanted {
			tin = append(tin, Label{Name: n, Type: U})
		}
		r.Shuffle(len(tin), func(a, b int) { tin[a], tin[b] = tin[b], tin[a] })
		s.Target = FuncSpec{In: tin, InForm: 1 + r.Intn(2)}
	} else if mode == 4 {
		// mode E: the type-only converter has a second input W that is
		// SUPPLIED directly (named or type-only); the path to the converter
		// may then enter through that argument, and the T argument must still
		// be the input named n
		n := names[perm[0]]
		wanted = []string{n}
		s.Inputs = append(s.Inputs, Label{Name: n, Type: T})
		for j := 0; j < 1+r.Intn(4); j++ {
			s.Inputs = append(s.Inputs, Label{Name: names[perm[1+j]], Type: T})
		}
		second := Label{Type: W}
		switch r.Intn(3) {
		case 0:
			second.Name = "flag"
		case 1:
			// same name as the parameter, other type (needs a subtype: named
			// values are keyed by name and subtype)
			second.Name, second.Sub = n, "w"
		}
		s.Inputs = append(s.Inputs, second)
		outL := Label{Type: U}
		if r.Intn(2) == 0 {
			outL = Label{Name: n, Type: U}
		}
		in2 := []Label{{Type: T}, second}
		if r.Intn(2) == 0 {
			in2[0], in2[1] = in2[1], in2[0]
		}
		conv1 := FuncSpec{In: in2, Out: []Label{outL}, InForm: formFor(in2, r, false), OutForm: formFor([]Label{outL}, r, false), HasErr: r.Intn(2) == 0}
		s.Convs = []FuncSpec{conv1}
		s.Target = FuncSpec{In: []Label{{Name: n, Type: U}}, InForm: 1 + r.Intn(2)}
	} else if mode == 2 {
		np := 2 + r.Intn(2)
		for i := 0; i < np; i++ {
			wanted = append(wanted, names[perm[i]])
		}
		for i := 0; i < np+r.Intn(3); i++ {
			l := Label{Name: names[perm[i]], Type: T}
			if i < np && r.Intn(5) == 0 {
				l.Sub = "k"
			}
			s.Inputs = append(s.Inputs, l)
		}
		conv := FuncSpec{In: []Label{{Type: T}}, Out: []Label{{Type: U}}, InForm: r.Intn(3), OutForm: r.Intn(3), HasErr: r.Intn(2) == 0}
		s.Convs = []FuncSpec{conv}
		var tin []Label
		for _, n := range wanted {
			tin = append(tin, Label{Name: n, Type: U})
		}
		r.Shuffle(len(tin), func(a, b int) { tin[a], tin[b] = tin[b], tin[a] })
		s.Target = FuncSpec{In: tin, InForm: 1 + r.Intn(2)}
	} else {
		n := names[perm[0]]
		wanted = []string{n}
		s.Inputs = append(s.Inputs, Label{Name: n, Type: T})
		for j := 0; j < 1+r.Intn(4); j++ {
			s.Inputs = append(s.Inputs, Label{Name: names[perm[1+j]], Type: T})
		}
		outL := Label{Type: U}
		if r.Intn(2) == 0 {
			outL = Label{Name: n, Type: U}
		}
		in2 := []Label{{Type: T}, {Type: W}}
		if r.Intn(2) == 0 {
			in2[0], in2[1] = in2[1], in2[0]
		}
		conv1 := FuncSpec{In: in2, Out: []Label{outL}, InForm: r.Intn(3), OutForm: formFor([]Label{outL}, r, false), HasErr: r.Intn(2) == 0}
		conv2 := FuncSpec{In: []Label{{Type: T}}, Out: []Label{{Type: W}}, InForm: r.Intn(3), OutForm: r.Intn(3), HasErr: r.Intn(2) == 0}
		s.Convs = []FuncSpec{conv1, conv2}
		if r.Intn(2) == 0 {
			s.Convs = []FuncSpec{conv2, conv1}
		}
		s.Target = FuncSpec{In: []Label{{Name: n, Type: U}}, InForm: 1 + r.Intn(2)}
	}
	extraTyped := mode != 2 && mode != 7 && r.Intn(3) == 0
	if extraTyped {
		// the target also has a type-only parameter of type T (any supplied T
		// will do for it): resolving it must not decide which T the
		// converter is fed for the NAMED parameter
		s.Target.In = append(s.Target.In, Label{Type: T})
		r.Shuffle(len(s.Target.In), func(a, b int) { s.Target.In[a], s.Target.In[b] = s.Target.In[b], s.Target.In[a] })
		res.obs("cases_with_a_type_only_sibling_parameter", 1)
	}
	r.Shuffle(len(s.Inputs), func(a, b int) { s.Inputs[a], s.Inputs[b] = s.Inputs[b], s.Inputs[a] })
	mainConv := -1
	for i, cv := range s.Convs {
		if cv.Out[0].Type == U {
			mainConv = i
		}
	}
	res.Key = fmt.Sprintf("mode%d %s", mode, s.Key())
	res.NonTrivial = true
	reps := tierReps(c.Tier, 5, 20)
	mixIn := r.Intn(2) == 0
	outs, _ := runScenarioX(c, s, r, reps, &res, func(in *Inst) {
		if mixIn {
			in.MixCase = r
		}
	}, func(in *Inst, o *Outcome) {
		det := map[string]interface{}{"scenario": s.String(), "mode": mode, "class": o.Class, "err": firstLine(errStr(o.Err)), "events": eventsStr(o.Events), "input_names_in_mixed_case": mixIn}
		if o.Class != ClsOK {
			res.violate("C07", "not-ok", "affinity scenario did not succeed: "+o.Class, det)
			return
		}
		// the name of the input a given execution of the main converter was fed with
		// rootT follows provenance back to the supplied value of type T
		var rootT func(id int64, depth int) string
		rootT = func(id int64, depth int) string {
			org := in.W.Origin(id)
			if org == nil || depth > 4 {
				return "?"
			}
			if org.Kind == OInput {
				if org.Label.Type == T {
					return org.Label.Name
				}
				return "?"
			}
			for _, f := range org.From {
				if n := rootT(f, depth+1); n != "?" {
					return n
				}
			}
			return "?"
		}
		fedBy := func(e *Event) string {
			for _, a := range e.Args {
				if a.Param.Type == T {
					if org := in.W.Origin(a.ID); org != nil && org.Kind == OInput {
						return org.Label.Name
					}
					return "?"
				}
			}
			if mode == 6 {
				for _, a := range e.Args {
					if n := rootT(a.ID, 0); n != "?" {
						return n
					}
				}
			}
			return "?"
		}
		execs := map[int]*Event{}
		for _, e := range o.Events {
			if e.Func == mainConv {
				execs[e.Exec] = e
			}
		}
		for _, e := range o.Events {
			if e.Func != -1 {
				continue
			}
			for _, a := range e.Args {
				if a.Param.Name == "" {
					continue // the type-only sibling parameter
				}
				org := in.W.Origin(a.ID)
				if org == nil || org.Kind != OConv || org.Func != mainConv {
					res.violate("C07", "not-converted", fmt.Sprintf("parameter %v was not produced by the converter", a.Param), det)
					continue
				}
				ce := execs[org.Exec]
				if ce == nil {
					continue
				}
				if got := fedBy(ce); got != a.Param.Name {
					key := "wrong-input-converted"
					if mode == 4 {
						key = "wrong-input-converted/second-input-supplied"
					}
					if mode == 5 {
						key = "wrong-input-converted/several-parameters-second-input-supplied"
					}
					if mode == 6 {
						key = "wrong-input-converted/chain-of-two-second-input-supplied"
					}
					if mode == 7 {
						key = "wrong-input-converted/several-named-outputs"
					}
					if extraTyped {
						key += "/type-only-sibling-parameter"
					}
					res.violate("C07", key, fmt.Sprintf("parameter %v was converted from the input named %q instead of the input named %q", a.Param, got, a.Param.Name), det)
				}
				res.obs("converter_arguments_checked", 1)
			}
		}
	})
	res.obs(fmt.Sprintf("mode%d_cases", mode), 1)
	res.Sample = sampleOf(s, outs)
	return res
}

// runC05AllGenerated: EVERY converter of the case is manufactured by ONE
// generator function, and they nest: the target needs Z from g1(A, C), whose C
// comes from g2(B, D); A, B and D are supplied, the generator hands out g1
// when it is shown the A value and g2 when it is shown the B value. No cycles,
// every converter satisfiable: scope (b), every repetition succeeds.
func runC05AllGenerated(c *CaseCtx, r *rand.Rand) (res CaseResult) {
	p := r.Perm(nConcrete)
	A, B, D, C, Z := p[0], p[1], p[2], p[3], p[4]
	var s Scenario
	s.Inputs = []Label{{Type: A}, {Type: B}, {Type: D}}
	if r.Intn(2) == 0 {
		s.Inputs[2].Name = "d"
	}
	g1 := FuncSpec{In: []Label{{Type: A}, {Type: C}}, Out: []Label{{Type: Z}}, InForm: r.Intn(3), OutForm: FormPos, Deliver: DelGen, GenTrig: A}
	g2 := FuncSpec{In: []Label{{Type: B}, {Type: D}}, Out: []Label{{Type: C}}, InForm: r.Intn(3), OutForm: FormPos, Deliver: DelGen, GenTrig: B}
	s.Convs = []FuncSpec{g1, g2}
	if r.Intn(2) == 0 {
		s.Convs = []FuncSpec{g2, g1}
	}
	s.Target = FuncSpec{In: []Label{{Type: Z}}, InForm: FormPos, OutForm: FormPos}
	res.Key = "all-generated " + s.Key()
	res.NonTrivial = true
	res.obs("family.all-generated", 1)
	res.obs("in_scope.b", 1)
	oneGen := caseOneGen
	caseOneGen = true // one generator function for both (the trigger types differ)
	defer func() { caseOneGen = oneGen }()
	outs, _ := runScenario(c, s, r, tierReps(c.Tier, 4, 12), &res, func(in *Inst, o *Outcome) {
		if o.Class != ClsOK {
			res.violate("C05", "incomplete/"+o.Class, "every converter is manufactured by one generator, all are satisfiable and acyclic, but the call ended with "+o.Class+": "+firstLine(errStr(o.Err))+o.Panic,
				map[string]interface{}{"scenario": s.String(), "class": o.Class, "events": eventsStr(o.Events)})
		}
	})
	res.Sample = sampleOf(s, outs)
	return res
}
