#!/bin/bash
# usage: vcheck.sh <PROPERTY> <quick|thorough>   |   vcheck.sh replay <witness.json>   |   vcheck.sh build
# Rebuilds the harness against /repo's current working tree (the module
# replaces github.com/hashicorp/go-argmapper with /repo, so the Go build cache
# keys on the content of /repo's files) with the verif hooks enabled, then runs.
set -u
cd "$(dirname "$0")"
export GOFLAGS=-mod=mod GOPROXY=off GOSUMDB=off GOTOOLCHAIN=local
VERIF_DIR="$(pwd)"; export VERIF_DIR
mkdir -p bin
build() {
  (cd harness && go build -tags verif -o ../bin/vcheck . ) || { echo "BUILD-FAILED: harness does not build against /repo"; exit 2; }
}
build_race() {
  (cd harness && go build -race -tags verif -o ../bin/vcheck-race . ) || { echo "BUILD-FAILED: race harness does not build against /repo"; exit 2; }
}
case "${1:-}" in
  build) build; build_race; exit 0;;
  replay) build; exec ./bin/vcheck replay "$2";;
  "") echo "usage: vcheck.sh <PROPERTY> <quick|thorough>"; exit 2;;
esac
PROP="$1"; TIER="${2:-${VERIF_TIER:-quick}}"
build
if ./bin/vcheck list | grep -q "^$PROP .*race=true"; then
  build_race
  exec ./bin/vcheck-race "$PROP" "$TIER"
fi
exec ./bin/vcheck "$PROP" "$TIER"
