#!/usr/bin/env python3
"""Regenerates MANIFEST.json from the table below (kept next to the checks so the two never drift)."""
import json, subprocess

HOOK_COMMITS = ["a9678e6"]

# id -> (technique, level text, level note, design ref)
CHECKS = {
 "C01": ("boundary event log + provenance ids checked against an independent MAY matching table (runtime monitor over generated workloads)",
         "Every argument observed inside every generated target/converter body (positional, struct, pointer-struct, built, generated converters) is checked for real provenance, causal order, assignability and label compatibility, over tens of thousands of generated scenarios repeated to sample map-order tie-breaks. Exploration: held on the executions observed, nothing more.",
         "Trusts the harness's provenance table and MAY table (30 lines, written from the property text); universe of 6 concrete + 2 interface types, <= 7 converters.", "5/C01"),
 "C02": ("derivability fix-point reference model (MAY table) vs. observed outcome and call log",
         "For every scenario with a target parameter outside the MAY least fix-point the monitor requires a non-nil error, no target execution, no fabricated argument, and the dedicated error type when every converter is MUST-satisfiable; hostile shapes (mutual cycles, unreachable prerequisites) are generated on purpose; crashes are caught by the process supervisor.",
         "Underivable is judged by the harness's own fix-point over labels; sampled scenarios only.", "5/C02"),
}

NOT_YET = {}

def main():
    checks = []
    for pid in sorted(CHECKS):
        tech, text, note, ref = CHECKS[pid]
        checks.append({
            "property_id": pid,
            "quick_cmd": f"./vcheck.sh {pid} quick",
            "thorough_cmd": f"./vcheck.sh {pid} thorough",
            "evidence_file": f"/verif/evidence/{pid}.json",
            "replay_cmd_template": "./vcheck.sh replay {path}",
            "engine": "vcheck",
            "level_claimed": {"category": "exploration", "text": text, "design_ref": "DESIGN.md §" + ref},
            "level_note": note,
            "technique": tech,
        })
    props = [json.loads(l)["id"] for l in open("properties.jsonl")]
    na = [{"property_id": p, "reason": NOT_YET.get(p, "check not built yet in this round (runtime monitoring applies; see DESIGN.md §5)")} for p in props if p not in CHECKS]
    m = {
        "version": 1,
        "setup_cmd": "./vcheck.sh build",
        "hooks": {
            "guard": "verif",
            "enable": "go build -tags verif (the harness module replaces github.com/hashicorp/go-argmapper with /repo)",
            "baseline_off_cmd": "cd /repo && GOFLAGS=-mod=mod GOPROXY=off GOSUMDB=off go test -json -vet=off -count=1 -timeout 25m ./...",
            "source_commits": HOOK_COMMITS,
            "add_only": True,
        },
        "engines": [{"name": "vcheck", "path": "/verif/harness", "serves_properties": sorted(CHECKS), "kind_free_text": "Go harness: generated workloads + boundary event log + reference-model oracles, child-process workers; -race binary for the concurrency properties"}],
        "checks": checks,
        "notes": "All checks rebuild the harness against /repo's working tree with -tags verif. Exit 0 = held on everything explored, 1 = VIOLATION line(s), 2 = broken or inconclusive run (build failure, too few non-trivial observations).",
        "not_applicable": na,
    }
    json.dump(m, open("MANIFEST.json", "w"), indent=1)
    print("MANIFEST.json written:", len(checks), "checks,", len(na), "not applicable")

if __name__ == "__main__":
    main()
