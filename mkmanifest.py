#!/usr/bin/env python3
"""Regenerates MANIFEST.json from the table below (kept next to the checks so the two never drift)."""
import json, subprocess

HOOK_COMMITS = ["a9678e6", "5525d47", "bbb9e1e", "95eb2d0"]

# id -> (technique, level text, level note, design ref)
CHECKS = {
 "C01": ("boundary event log + provenance ids checked against an independent MAY matching table (runtime monitor over generated workloads)",
         "Every argument observed inside every generated target/converter body (positional, struct, pointer-struct, built, generated converters) is checked for real provenance, causal order, assignability and label compatibility, over tens of thousands of generated scenarios repeated to sample map-order tie-breaks. Exploration: held on the executions observed, nothing more.",
         "Trusts the harness's provenance table and MAY table (30 lines, written from the property text); universe of 6 concrete struct types + 3 interface types, plus 9 exotic types (unnamed slice/pointer/map/func/array, defined twins assignable to them, channels) that replace three of the struct types in one case in eight; <= 9 converters. One recorded, unrepaired defect (KNOWN_FINDINGS.txt open: D38, subtype mismatch handed over through a twin interface type) is decided by a fixed case under its own key and printed as KNOWN-FINDING; every other binding violation keeps its key.", "5/C01"),
 "C02": ("derivability fix-point reference model (MAY table) vs. observed outcome and call log",
         "For every scenario with a target parameter outside the MAY least fix-point the monitor requires a non-nil error, no target execution, no fabricated argument, and the dedicated error type when every converter is MUST-satisfiable; hostile shapes (mutual cycles, unreachable prerequisites) are generated on purpose; crashes are caught by the process supervisor. Histories: the refused call may follow a satisfied call on the same objects, directly, through a function redefined from the target, or through a caller's wrapper built over the target's own input/output sets.",
         "Underivable is judged by the harness's own fix-point over labels; sampled scenarios only.", "5/C02"),
 "C03": ("provenance monitor over a constructive exact-match generator with adversarial distractors",
         "Targets with an exactly matching supplied value per parameter are surrounded by near-miss inputs and distractor converters (same-named chains, providers, bidirectional pairs, failing and run-once ones); the monitor requires success, zero converter executions and the exact ids in the target's arguments, repeated to sample tie-breaks; one case in five follows a call with other values through a wrapper over the target's own sets (the exact call must bind its own inputs).",
         "Interface-typed parameters excluded (no exact input exists); sampled shapes only.", "5/C03"),
 "C04": ("ordered boundary event log + error identity oracle (== on comparable error values, backing array for slice-typed ones)",
         "Constructive chains/DAGs with independently failing converters at depth 1-6 (all result forms, built, run-once) and failing targets: Err() must be the very error value of the first failing body, that execution must be the last of the call, the target must not run; a second call re-checks cached run-once failures.",
         "Identity is pointer identity of the generated error values (sentinel structs, integer codes, typed nil pointers, error lists and, one case in seven, values of an uncomparable slice type included).", "5/C04"),
 "C05": ("scope classifier + MUST-derivability fix-point reference model; outcome class compared across repetitions",
         "In-scope scenarios (single-input converter sets with arbitrary cycles; acyclic multi-input sets with every converter satisfiable) with every parameter derivable must succeed (or return a failing converter's error) on each of R repetitions with a stable class; repetitions sample Go's randomized map order and the evidence reports how many distinct execution traces were seen. A history family re-labels requirements through the pointers Input()/Output() hand out between calls; each call supplies inputs matching the current labels and must succeed.",
         "Scope and derivability are judged by the harness's own tables; map order is sampled, not enumerated.", "5/C05"),
 "C06": ("process-supervised execution (crash journal), recovered-panic monitor, recursion/step bound counters at the verif hook",
         "Every well-formed generated scenario is pushed through Call, Convert, Redefine and a call of the redefined function in child processes that survive fatal errors; hostile families target mutual recursion and repeated positional types; malformed options must be ignored or reported. Non-termination is restated as bounded progress observed at the reachTarget hook. A history family drives calls and Redefines over a dependency cycle of multi-input converters (any subset run-once, memoized by earlier calls that break the cycle) against a closure oracle.",
         "Bounded-progress restatement of termination (depth <= 8(F+3), <= 10^6 resolver steps per API call, 5*10^6 loop steps per case incl. signature analysis); wall-clock watchdog firing is inconclusive. One recorded, unrepaired defect (KNOWN_FINDINGS.txt open: trace-level logger + a value that contains itself -> fatal stack overflow in fmt) is decided by a child-process probe under its own key and printed as KNOWN-FINDING; every other crash key is a violation.", "5/C06"),
 "C07": ("provenance monitor over a dedicated name-affinity generator",
         "Competing same-typed named inputs and competing converters (explicit name vs type-only, same output label) in all forms and orders; the monitor checks which input was converted and which converter ran, over repetitions sampling map order.",
         "Both competing converters declare the same output label; sampled type pairs and names.", "5/C07"),
 "C13": ("structured-error field oracle against the generated case (labels, multisets, pointer identity)",
         "Scenarios with a parameter made hopeless by construction: the monitor inspects ErrArgumentUnsatisfied.Args/Inputs/Converters and the message against the case specification and the MUST fix-point.",
         "Hopelessness is by construction (types T4/T5 unused elsewhere); generator-delivered converters are not required in Converters.", "5/C13"),
 "C08": ("planning-result oracle: declared inputs of the redefined function vs. filter model and supplied values; provenance/identity checks on calling it",
         "G-redefine scenarios (single-input converters, no subtypes, one type per name, constructive chains of 1-5 converters with optional cycles, arbitrary type-subset filters built from the library's combinators): the monitor checks the redefined function's declared inputs against the filter and the supplied values, calls it with a fresh value per input and requires the original target to run exactly once with the results passed through unchanged.",
         "Positional target results only (ids compared one by one); values for interface-typed named inputs are supplied type-only, the only form the matching rules accept.", "5/C08"),
 "C09": ("execution counters during planning + twin-world differential over operation histories; concurrent rounds under the Go race detector",
         "Histories interleaving Redefine with Call/Convert/redefined calls on shared function objects (run-once ones included) are compared with a twin world that performs the same history without the Redefines; no generated body may run between entry and return of Redefine; a leaked zero-producing stand-in would surface as provenance id 0 in the C01 monitor. One case in eight runs Redefine and Call concurrently under -race; one in forty plans through a converter whose (memoized) struct-form result is a nil pointer / zero struct and requires every later real use to look as in the twin world.",
         "Twin comparison only on outcome-stable scenario classes; races judged on observed interleavings.", "5/C09"),
 "C10": ("differential monitor: Convert vs. Call of a real identity function in a twin world, plus provenance checks of the returned value",
         "Convert's return pair is checked on every case (nil-with-error, assignability, provenance under the C01 rule for a type-only parameter, C04 on the log) and compared with calling func(T) T in a twin world on the outcome-stable cases (underivable, or C05 scope without failures). A history family alternates Converts between two different types that print alike, each against an identity function of that type.",
         "Outcome equality is demanded only where the outcome class is a singleton.", "5/C10"),
 "C11": ("execution counters + porcupine linearizability check of recorded exec/use histories against a write-once-register model + Go race detector, with injected yields/sleeps at hook points",
         "Sequential histories over varying targets check at-most-once execution and that every later use observes execution #0 (values or the identical error). Concurrent first-use rounds (GOMAXPROCS 1-16, perturbation at the memo check/call/store hooks and inside the body) record exec and use operations with real-time intervals; porcupine decides each history; the race detector watches the memo.",
         "Porcupine timeout = inconclusive; race freedom only for interleavings that occurred.", "5/C11"),
 "C12": ("Go race detector over a hostile sharing workload + per-call outcome/isolation oracles on the provenance log",
         "One target, its default options, converter objects, one option slice with every option constructor, a shared redefined function and shared value sets are hammered by 4-16 goroutines doing Call/Convert/Redefine/redefined calls with per-call inputs; any race report is a violation; outcomes must equal the sequential reference; provenance of every execution's arguments must stay within one call (or shared constants). A further family shares a function with 2-14 default options between 8-16 goroutines that pass only 1-3 call-time options each (their own values must come back).",
         "BuildFunc functions excluded as the property states; the monitor's own state is mutex protected; reports are deduplicated by top-frame pair.", "5/C12"),
 "C14": ("round-trip oracle: Go signatures generated from label lists vs. introspection results; static rejected shapes",
         "Function types are generated from label lists in every form with the documented tag options, unexported fields and every error-result position; Input()/Output().Values() and the lookups must reproduce the list exactly; 15 static struct shapes and non-function values cover the required rejections.",
         "Only documented tag options are generated; the deciding comparison is structural equality of (name,type,subtype) lists.", "5/C14"),
 "C15": ("accessor/round-trip oracles on generated value lists; provenance-exact monitoring of built-function callbacks, results and downstream consumers; twin ordinary function",
         "Value sets from generated lists are checked for order, lookups and signature round trips; built functions are called repeatedly with fresh ids directly, as converters in front of a consumer, and next to an ordinary twin: the callback must see exactly the supplied ids (unambiguous cases), consumers and Result/FromResult exactly what the callback set, with no id surviving from an earlier call.",
         "Exactness is only demanded where the matching table leaves a single candidate; elsewhere the C01 relation.", "5/C15"),
 "C16": ("provenance-of-injected-values oracle over generated option lists (live-occurrence model)",
         "Exact-match targets receive option lists with random casing, 1-3 occurrences per key split between defaults and call options, Typed(a,b) duplicates and nil values; the monitor computes the live occurrence of every key and compares it with the id each parameter actually received; nil options must produce an error result; option permutations must not change the ids of unambiguous parameters.",
         "Type-only parameters sharing a type with another key may legitimately receive either live value (excluded from the permutation comparison).", "5/C16"),
 "C17": ("return-value oracle over generated result lists (ids and error identity), incl. run-once and redefined callee",
         "Functions returning 0-4 values with error results in every position, nil or not, concrete error types in final position, optionally memoized or wrapped by Redefine: Len/Out/Err must partition exactly what the body returned; resolution failures must give Len()==0 and an error.",
         "Identity by provenance id / pointer.", "5/C17"),
 "C18": ("reference-model monitor: Dijkstra/EdgeToPath vs. Floyd-Warshall on generated graphs; live-graph hook on the resolver's searches; exhaustive small-graph sub-space in the thorough tier",
         "Every generated digraph (<= 10 vertices, zero-weight cycles, self-loops, re-weighted edges, four vertex kinds) is searched from every source several times; distances, predecessor paths and unreachable vertices are compared with an all-pairs reference. The resolver's own non-negative searches are checked through the reach.path hook. Thorough enumerates all 262 404 digraphs on <= 3 vertices with weights {absent,0,1,2}.",
         "Exploration overall; the <= 3-vertex sub-space is exhaustive (reported under observed.exhaustive_le3_vertices_complete). Graphs reach the package through the verif-tag type alias.", "5/C18"),
 "C19": ("executable adjacency model checked after every operation of generated mutation histories; structural invariant hook (VerifSnapshot); live-graph mirror/copy checks",
         "Histories of up to 60 colliding operations (Add, AddOverwrite, AddEdge(Weighted), RemoveEdge, Remove, Copy, Reverse, Reverse().Reverse(), starting from the zero-value graph) run against a plain map model per graph; after every operation every live handle is compared (vertex set, successors, predecessors, internal transpose consistency, weights, lookups) and at the end searches must use the last weights.",
         "Edge operations naming an absent vertex and removals of absent vertices are generated and expected to do nothing; object identity of re-added vertices not checked.", "5/C19"),
 "C20": ("transitive-closure reference model for DFS / KahnSort / StronglyConnected / TopoShortestPath on generated graphs; live pruning-DFS hook; exhaustive small-graph sub-space in the thorough tier",
         "DFS with fixed descend/decline decisions, topological sorting (incl. the required panic on cycles and self-loops), component partition and DAG shortest paths are compared with the closure / all-pairs reference on random graphs and, in the thorough tier, on every digraph with <= 3 vertices; the resolver's own pruning traversal is checked on live graphs.",
         "Vertices whose callback declines may be reported repeatedly (never marked visited); sets are compared for those.", "5/C20"),
}

NOT_YET = {}

def main():
    checks = []
    for pid in sorted(CHECKS):
        tech, text, note, ref = CHECKS[pid]
        checks.append({
            "property_id": pid,
            "quick_cmd": f"./vcheck.sh {pid} quick",
            "thorough_cmd": f"./vcheck.sh {pid} thorough",
            "evidence_file": f"/verif/evidence/{pid}.json",
            "replay_cmd_template": "./vcheck.sh replay {path}",
            "engine": "vcheck",
            "level_claimed": {"category": "exploration", "text": text, "design_ref": "DESIGN.md §" + ref},
            "level_note": note,
            "technique": tech,
        })
    props = [json.loads(l)["id"] for l in open("properties.jsonl")]
    na = [{"property_id": p, "reason": NOT_YET.get(p, "check not built yet in this round (runtime monitoring applies; see DESIGN.md §5)")} for p in props if p not in CHECKS]
    m = {
        "version": 1,
        "setup_cmd": "./vcheck.sh build",
        "hooks": {
            "guard": "verif",
            "enable": "go build -tags verif (the harness module replaces github.com/hashicorp/go-argmapper with /repo)",
            "baseline_off_cmd": "cd /repo && GOFLAGS=-mod=mod GOPROXY=off GOSUMDB=off go test -json -vet=off -count=1 -timeout 25m ./...",
            "source_commits": HOOK_COMMITS,
            "add_only": True,
        },
        "engines": [{"name": "vcheck", "path": "/verif/harness", "serves_properties": sorted(CHECKS), "kind_free_text": "Go harness: generated workloads + boundary event log + reference-model oracles, child-process workers; -race binary for the concurrency properties"}],
        "checks": checks,
        "notes": "All checks rebuild the harness against /repo's working tree with -tags verif. Exit 0 = held on everything explored, 1 = VIOLATION line(s), 2 = broken or inconclusive run (build failure, too few non-trivial observations).",
        "not_applicable": na,
    }
    json.dump(m, open("MANIFEST.json", "w"), indent=1)
    print("MANIFEST.json written:", len(checks), "checks,", len(na), "not applicable")

if __name__ == "__main__":
    main()
